#!/bin/bash
# usage: seed_recheck.sh <name> [base commit]   (default base: 7ba66f1, see meta.json)
# Re-runs the quick checks recorded in seeded/<name>/meta.json against the
# seeded change applied to a scratch worktree of its base commit.
set -u
name=$1
d=/verif/seeded/$name
# /repo HEAD if the patch still applies there, else the commit it was written against
if [ -n "${2:-}" ]; then base=$2
elif git -C /repo apply --check $d/patch.diff 2>/dev/null; then base=HEAD
else base=7ba66f1; fi
echo "$name base=$base"
wt=/tmp/recheck-$name
git -C /repo worktree remove --force $wt 2>/dev/null
git -C /repo worktree add --detach -q $wt $base || exit 2
git -C $wt apply $d/patch.diff || { echo "PATCH DOES NOT APPLY to $base"; git -C /repo worktree remove --force $wt; exit 2; }
for p in $(python3 -c "import json;print(' '.join(json.load(open('$d/meta.json'))['checks']))"); do
  VERIF_REPO=$wt timeout 900 /venv/bin/python /verif/check.py run $p --tier quick --no-evidence > /tmp/recheck-$name-$p.txt 2>&1
  echo "$name $p exit $? $(grep -m1 '^\[simlab\] C' /tmp/recheck-$name-$p.txt | cut -c1-160)"
  rm -f /tmp/recheck-$name-$p.txt
done
git -C /repo worktree remove --force $wt
