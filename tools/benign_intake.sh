#!/bin/bash
# usage: benign_intake.sh <name>
# A sub-agent's property-preserving refactor (from /tmp/benign-<name>): confirm
# (suite as baseline, its own property demo passes before and after), run ALL
# five quick checks against it (every one must stay silent) and file it under
# /verif/benign/<name>/.
set -u
name=$1
src=/tmp/benign-$name
wt=/tmp/verify-benign-$name
out=/verif/benign/$name
mkdir -p $out
git -C /repo worktree remove --force $wt 2>/dev/null
git -C /repo worktree add --detach -q $wt HEAD || exit 2
echo "base commit: $(git -C $wt rev-parse --short HEAD)" | tee $out/base_commit.txt
git -C $wt apply $src/patch.diff || { echo "PATCH DOES NOT APPLY"; exit 2; }
cp $src/patch.diff $src/demo.py $out/
cp $src/meta.json $out/agent_meta.json 2>/dev/null
echo "== suite with the refactor"
(cd $wt && PYTHONPATH=$wt/src timeout 1800 /venv/bin/python -m pytest -q -p no:cacheprovider --timeout=900 2>&1 | tail -3) | tee $out/pytest_tail.txt
echo "== demo on /repo"; PYTHONPATH=/repo/src timeout 600 /venv/bin/python $src/demo.py > $out/demo_without.txt 2>&1; echo "exit $?" | tee -a $out/demo_without.txt
echo "== demo with the refactor"; PYTHONPATH=$wt/src timeout 600 /venv/bin/python $src/demo.py > $out/demo_with.txt 2>&1; echo "exit $?" | tee -a $out/demo_with.txt
for p in C01 C02 C04 C15 C18; do
  VERIF_REPO=$wt timeout 900 /venv/bin/python /verif/check.py run $p --tier quick --no-evidence > $out/check_$p.txt 2>&1; rc=$?
  echo "check $p exit $rc $(grep -m1 -E '^\[simlab\] C[0-9]|HARNESS' $out/check_$p.txt | cut -c1-220)" | tee -a $out/checks.txt
  rp=$(grep -m1 '^VIOLATION' $out/check_$p.txt | sed 's/.*replay=//')
  [ -n "$rp" ] && [ -f "$rp" ] && cp "$rp" $out/replay_$p.json
done
git -C /repo worktree remove --force $wt
