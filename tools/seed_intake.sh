#!/bin/bash
# usage: seed_intake.sh <name> <property> [extra properties...]
# Confirms a sub-agent's seeded change in a fresh worktree, runs the checks
# against it and files it under /verif/seeded/<name>/.
set -u
name=$1; shift
props="$@"
src=/tmp/seed-$name
wt=/tmp/verify-$name
out=/verif/seeded/$name
mkdir -p $out
git -C /repo worktree remove --force $wt 2>/dev/null
base=${SEED_BASE:-HEAD}
git -C /repo worktree add --detach -q $wt $base || exit 2
echo "base commit: $(git -C $wt rev-parse --short HEAD)" | tee $out/base_commit.txt
git -C $wt apply $src/patch.diff || { echo "PATCH DOES NOT APPLY"; exit 2; }
cp $src/patch.diff $src/demo.py $out/
cp $src/meta.json $out/agent_meta.json 2>/dev/null
echo "== baseline suite with the change"
(cd $wt && PYTHONPATH=$wt/src timeout 1800 /venv/bin/python -m pytest -q -p no:cacheprovider --timeout=900 2>&1 | tail -5) | tee $out/pytest_tail.txt
echo "== demo without the change (/repo)"
PYTHONPATH=/repo/src timeout 300 /venv/bin/python $src/demo.py > $out/demo_without.txt 2>&1; echo "exit $?" | tee -a $out/demo_without.txt; tail -3 $out/demo_without.txt
echo "== demo with the change"
PYTHONPATH=$wt/src timeout 300 /venv/bin/python $src/demo.py > $out/demo_with.txt 2>&1; echo "exit $?" | tee -a $out/demo_with.txt; tail -5 $out/demo_with.txt
for p in $props; do
  echo "== check $p quick against the change"
  VERIF_REPO=$wt timeout 900 /venv/bin/python /verif/check.py run $p --tier quick --no-evidence > $out/check_$p.txt 2>&1; echo "exit $?" | tee -a $out/check_$p.txt
  grep -E "^\[simlab\] (C[0-9]|runs)|^VIOLATION|HARNESS" $out/check_$p.txt | head -6
  # keep the replay next to the seeded change
  rp=$(grep -m1 '^VIOLATION' $out/check_$p.txt | sed 's/.*replay=//')
  [ -n "$rp" ] && [ -f "$rp" ] && cp "$rp" $out/replay_$p.json
done
git -C /repo worktree remove --force $wt
