"""Worker-side tools over canonical forms produced by nodeside.canon."""

from __future__ import annotations

import copy


def recordings_of(canon: dict) -> dict:
    """uuid -> path string of every Recording version in a canon."""
    out = {}
    for key, body in canon["defs"].items():
        if body.get("__type") == "Recording":
            path = body.get("path")
            out[key] = path["__path"] if isinstance(path, dict) else path
    return out


def recording_uuid(key: str) -> str:
    # "Recording:<uuid>#<version>"
    return key.split(":", 1)[1].rsplit("#", 1)[0]


def norm_dir(path):
    if path is None:
        return None
    # pathlib's reading of a directory name: repeated separators and "."
    # segments mean nothing ("/a//b/./c/" is "/a/b/c"); ".." is not generated
    lead = "/" if path.startswith("/") else ""
    parts = [p for p in path.split("/") if p not in ("", ".")]
    return (lead + "/".join(parts)) or lead or "."


def is_inside(path: str, audio_dir: str) -> bool:
    root = norm_dir(audio_dir)
    return path.startswith(root + "/") and len(path) > len(root) + 1


def stored_path(path: str, save_dir):
    """What the document must hold for a recording at ``path``."""
    if save_dir is None:
        return path
    root = norm_dir(save_dir)
    return path[len(root) + 1 :]


def loaded_path(stored: str, load_dir):
    """What a loader configured with ``load_dir`` must return."""
    if load_dir is None:
        return stored
    if stored.startswith("/"):
        return stored  # joining an absolute path replaces the directory
    return norm_dir(load_dir) + "/" + stored


def remap(canon: dict, save_dir, load_dir) -> dict:
    """Expected canon after save under save_dir and load under load_dir."""
    if save_dir is None and load_dir is None:
        return canon
    out = {"root": canon["root"], "defs": {}}
    renamed = {}
    for key, body in canon["defs"].items():
        if body.get("__type") == "Recording":
            body = dict(body)
            path = body["path"]["__path"]
            body["path"] = {
                "__path": loaded_path(stored_path(path, save_dir), load_dir)
            }
        out["defs"][key] = body
    del renamed
    return out


def _pattern(path: list) -> str:
    return "".join(path)


def _is_datetime(x):
    return isinstance(x, dict) and len(x) == 1 and "__datetime" in x


def _same_datetime(a, b):
    """Python's ==: two aware datetimes are equal when they are the same
    instant, whatever offset they are written with; a naive one never equals
    an aware one."""
    import datetime as dt  # noqa: PLC0415

    try:
        x = dt.datetime.fromisoformat(a["__datetime"])
        y = dt.datetime.fromisoformat(b["__datetime"])
    except (TypeError, ValueError):
        return a == b
    if (x.tzinfo is None) != (y.tzinfo is None):
        return False
    return x == y


def _where(cls, where):
    # a pattern that names a finding on its own stands without the class
    return where if where.startswith("__datetime:") else f"{cls}{where}"


def _datetime_pattern(path, a):
    """Where two datetimes differ. A stamp whose UTC offset has a seconds
    part gets a class of its own, whatever field it sits in (known finding
    F10: the JSON writer cuts the offset to whole minutes)."""
    import datetime as dt  # noqa: PLC0415

    try:
        off = dt.datetime.fromisoformat(a["__datetime"]).utcoffset()
    except (TypeError, ValueError):
        off = None
    if off is not None and off.total_seconds() % 60:
        return "__datetime:sub-minute-utc-offset"
    return _pattern(path + [".__datetime"])


def first_diff(a, b, path=None):
    """First differing location between two canon trees, as a value-free
    pattern (list indices replaced by []), or None if equal.

    Numbers are compared with == (so -0.0 == 0.0 and 1 == 1.0); booleans are
    not numbers here (True != 1).
    """
    path = path or []
    if _is_number(a) and _is_number(b):
        # an int default (score = 1) and the float read back (1.0) are equal
        return None if a == b else (_pattern(path), a, b)
    if type(a) is not type(b):
        return _pattern(path), a, b
    if _is_datetime(a) and _is_datetime(b):
        return None if _same_datetime(a, b) else (
            _datetime_pattern(path, a), a["__datetime"], b["__datetime"]
        )
    if isinstance(a, dict):
        keys = list(dict.fromkeys(list(a) + list(b)))
        for key in keys:
            if key not in a or key not in b:
                return _pattern(path + [f".{key}"]), a.get(key), b.get(key)
            found = first_diff(a[key], b[key], path + [f".{key}"])
            if found:
                return found
        return None
    if isinstance(a, list):
        if len(a) != len(b):
            return _pattern(path + ["[len]"]), len(a), len(b)
        for x, y in zip(a, b):
            found = first_diff(x, y, path + ["[]"])
            if found:
                return found
        return None
    if a != b:
        return _pattern(path), a, b
    return None


def iter_diffs(a, b, path=None):
    """All differing locations (same conventions as first_diff)."""
    path = path or []
    if _is_number(a) and _is_number(b):
        if a != b:
            yield _pattern(path), a, b
        return
    if type(a) is not type(b):
        yield _pattern(path), a, b
        return
    if _is_datetime(a) and _is_datetime(b):
        if not _same_datetime(a, b):
            yield _datetime_pattern(path, a), a["__datetime"], b["__datetime"]
        return
    if isinstance(a, dict):
        for key in dict.fromkeys(list(a) + list(b)):
            if key not in a or key not in b:
                yield _pattern(path + [f".{key}"]), a.get(key), b.get(key)
            else:
                yield from iter_diffs(a[key], b[key], path + [f".{key}"])
        return
    if isinstance(a, list):
        if len(a) != len(b):
            yield _pattern(path + ["[len]"]), len(a), len(b)
            return
        for x, y in zip(a, b):
            yield from iter_diffs(x, y, path + ["[]"])
        return
    if a != b:
        yield _pattern(path), a, b


def canon_diffs(expected: dict, actual: dict, limit=12):
    """Like canon_diff but returns up to ``limit`` distinct (class, detail)."""
    out, seen = [], set()

    def add(cls, detail):
        if cls not in seen and len(out) < limit:
            seen.add(cls)
            out.append((cls, detail))

    for where, a, b in iter_diffs(expected["root"], actual["root"]):
        add(_where("root", where), f"expected {_short(a)} got {_short(b)}")
    for key, body in expected["defs"].items():
        other = actual["defs"].get(key)
        cls = key.split(":", 1)[0]
        if other is None:
            add(f"missing-object:{cls}", key)
            continue
        for where, a, b in iter_diffs(body, other):
            add(_where(cls, where), f"{key}: expected {_short(a)} got {_short(b)}")
    for key in actual["defs"]:
        if key not in expected["defs"]:
            add(f"extra-object:{key.split(':', 1)[0]}", key)
    return out


def _is_number(value) -> bool:
    return isinstance(value, (int, float)) and not isinstance(value, bool)


def canon_diff(expected: dict, actual: dict):
    """Compare two canons; returns (class_suffix, detail) or None.

    class_suffix examples: ``Recording.license``, ``Dataset.recordings[len]``,
    ``missing-object:Sequence``, ``extra-object:User``.
    """
    found = first_diff(expected["root"], actual["root"])
    if found:
        where, a, b = found
        return _where("root", where), f"expected {_short(a)} got {_short(b)}"
    for key, body in expected["defs"].items():
        other = actual["defs"].get(key)
        cls = key.split(":", 1)[0]
        if other is None:
            return f"missing-object:{cls}", key
        found = first_diff(body, other)
        if found:
            where, a, b = found
            return f"{cls}{where}", f"{key}: expected {_short(a)} got {_short(b)}"
    for key in actual["defs"]:
        if key not in expected["defs"]:
            return f"extra-object:{key.split(':', 1)[0]}", key
    return None


def _short(value) -> str:
    text = repr(value)
    return text if len(text) <= 160 else text[:157] + "..."


def deep(value):
    return copy.deepcopy(value)
