"""Request handlers that run inside a node process.

Everything here that touches ``soundevent`` runs the real code from
$VERIF_REPO/src. Harness helpers (materialise, canon, reach) only use public
constructors and ``model_fields``.

Outcome convention: an exception raised by soundevent (or by a library below
it) is an *outcome* ({"outcome": "raised", "exc": <class name>}); an exception
in harness code is a harness error and is reported as such, never as a
violation.
"""

from __future__ import annotations

import base64
import datetime as dt
import enum
import os
import pathlib
import traceback
import uuid as uuidlib

from . import rpc, shims

TEMPLATE_INFO: dict = {}

# node-local state
WORLDS: dict = {}  # spec key -> World
OBJECTS: dict = {}  # handle -> loaded soundevent object
ARRAYS: dict = {}  # handle -> xarray.DataArray (audio world)
RECORDINGS: dict = {}  # handle -> data.Recording (audio world)


def _data():
    from soundevent import data  # noqa: PLC0415

    return data


# ------------------------------------------------------------- materialise


def _dtm(text):
    return dt.datetime.fromisoformat(text)


USE_EXTRAS = [True]


def build_world(spec):
    """Materialise a world. If the data classes refuse it and it carries
    generically filled fields (fields added to a data class that the builders
    do not know: their legal values may be decided by a validator function
    the generator cannot see), it is built again without them: those fields
    then go unexercised, the world is still an input."""
    try:
        return World(spec)
    except Exception:
        if not _has_extras(spec):
            raise
    USE_EXTRAS[0] = False
    try:
        return World(spec)
    finally:
        USE_EXTRAS[0] = True


def _has_extras(spec) -> bool:
    for pool in spec.values():
        if isinstance(pool, list):
            if any(isinstance(e, dict) and e.get("extra") for e in pool):
                return True
        elif isinstance(pool, dict):
            if any(isinstance(e, dict) and e.get("extra") for e in pool.values()):
                return True
    return False


def _extra(entity):
    """Generically filled declared fields (specs.fill_extra)."""
    out = {}
    if not USE_EXTRAS[0]:
        return out
    for name, value in (entity.get("extra") or {}).items():
        if isinstance(value, dict) and "__datetime" in value:
            value = _dtm(value["__datetime"])
        out[name] = value
    return out


def _features(items):
    data = _data()
    return [
        data.Feature(term=data.term_from_key(label), value=value)
        for label, value in items
    ]


class World:
    """Live objects built from a world spec through the public constructors."""

    def __init__(self, spec: dict):
        data = _data()
        self.spec = spec
        self.roots: dict = {}
        g = spec.get
        self.users = [
            data.User(
                **{
                    **{k: v for k, v in u.items() if k != "extra"},
                    "uuid": uuidlib.UUID(u["uuid"]),
                    **_extra(u),
                }
            )
            for u in g("users", [])
        ]
        self.tags = [
            data.Tag(term=data.term_from_key(label), value=value)
            for label, value in g("tags", [])
        ]
        self.recordings = [self._recording(r) for r in g("recordings", [])]
        self.clips = [
            data.Clip(
                uuid=uuidlib.UUID(c["uuid"]),
                recording=self.recordings[c["recording"]],
                start_time=c["start_time"],
                end_time=c["end_time"],
                features=_features(c.get("features", [])),
                **_extra(c),
            )
            for c in g("clips", [])
        ]
        self.sound_events = [
            data.SoundEvent(
                uuid=uuidlib.UUID(s["uuid"]),
                recording=self.recordings[s["recording"]],
                geometry=self._geometry(s.get("geometry")),
                features=_features(s.get("features", [])),
                **_extra(s),
            )
            for s in g("sound_events", [])
        ]
        self.sequences = []
        for q in g("sequences", []):
            parent = q.get("parent")
            self.sequences.append(
                data.Sequence(
                    uuid=uuidlib.UUID(q["uuid"]),
                    sound_events=[
                        self.sound_events[i] for i in q["sound_events"]
                    ],
                    parent=None if parent is None else self.sequences[parent],
                    features=_features(q.get("features", [])),
                    **_extra(q),
                )
            )
        self.se_annotations = [
            data.SoundEventAnnotation(
                uuid=uuidlib.UUID(a["uuid"]),
                sound_event=self.sound_events[a["sound_event"]],
                **self._annotation_common(a),
            )
            for a in g("se_annotations", [])
        ]
        self.seq_annotations = [
            data.SequenceAnnotation(
                uuid=uuidlib.UUID(a["uuid"]),
                sequence=self.sequences[a["sequence"]],
                **self._annotation_common(a),
            )
            for a in g("seq_annotations", [])
        ]
        self.clip_annotations = [
            data.ClipAnnotation(
                uuid=uuidlib.UUID(a["uuid"]),
                clip=self.clips[a["clip"]],
                sound_events=[
                    self.se_annotations[i] for i in a.get("sound_events", [])
                ],
                sequences=[
                    self.seq_annotations[i] for i in a.get("sequences", [])
                ],
                tags=[self.tags[i] for i in a.get("tags", [])],
                notes=[self._note(n) for n in a.get("notes", [])],
                **(
                    {"created_on": _dtm(a["created_on"])}
                    if "created_on" in a
                    else {}
                ),
                **_extra(a),
            )
            for a in g("clip_annotations", [])
        ]
        self.se_predictions = [
            data.SoundEventPrediction(
                uuid=uuidlib.UUID(p["uuid"]),
                sound_event=self.sound_events[p["sound_event"]],
                tags=self._predicted_tags(p.get("tags", [])),
                **({"score": p["score"]} if "score" in p else {}),
                **_extra(p),
            )
            for p in g("se_predictions", [])
        ]
        self.seq_predictions = [
            data.SequencePrediction(
                uuid=uuidlib.UUID(p["uuid"]),
                sequence=self.sequences[p["sequence"]],
                tags=self._predicted_tags(p.get("tags", [])),
                **({"score": p["score"]} if "score" in p else {}),
                **_extra(p),
            )
            for p in g("seq_predictions", [])
        ]
        self.clip_predictions = [
            data.ClipPrediction(
                uuid=uuidlib.UUID(p["uuid"]),
                clip=self.clips[p["clip"]],
                sound_events=[
                    self.se_predictions[i] for i in p.get("sound_events", [])
                ],
                sequences=[
                    self.seq_predictions[i] for i in p.get("sequences", [])
                ],
                tags=self._predicted_tags(p.get("tags", [])),
                features=_features(p.get("features", [])),
                **_extra(p),
            )
            for p in g("clip_predictions", [])
        ]
        self.matches = [self._match(m) for m in g("matches", [])]
        self.clip_evaluations = [
            self._clip_evaluation(e) for e in g("clip_evaluations", [])
        ]
        self.tasks = [self._task(t) for t in g("tasks", [])]

    # -- pieces

    def _geometry(self, geom):
        if geom is None:
            return None
        cls = getattr(_data(), geom["type"])
        return cls(coordinates=geom["coordinates"])

    def _note(self, n):
        data = _data()
        kwargs = {"uuid": uuidlib.UUID(n["uuid"]), "message": n["message"]}
        if n.get("created_by") is not None:
            kwargs["created_by"] = self.users[n["created_by"]]
        if "is_issue" in n:
            kwargs["is_issue"] = n["is_issue"]
        if "created_on" in n:
            kwargs["created_on"] = _dtm(n["created_on"])
        kwargs.update(_extra(n))
        return data.Note(**kwargs)

    def _recording(self, r):
        data = _data()
        kwargs = {
            "uuid": uuidlib.UUID(r["uuid"]),
            "path": pathlib.Path(r["path"]),
            "duration": r["duration"],
            "channels": r["channels"],
            "samplerate": r["samplerate"],
        }
        for key in (
            "time_expansion",
            "hash",
            "latitude",
            "longitude",
            "license",
            "rights",
        ):
            if key in r:
                kwargs[key] = r[key]
        if "date" in r:
            kwargs["date"] = dt.date.fromisoformat(r["date"])
        if "time" in r:
            kwargs["time"] = dt.time.fromisoformat(r["time"])
        kwargs["owners"] = [self.users[i] for i in r.get("owners", [])]
        kwargs["tags"] = [self.tags[i] for i in r.get("tags", [])]
        kwargs["features"] = _features(r.get("features", []))
        kwargs["notes"] = [self._note(n) for n in r.get("notes", [])]
        kwargs.update(_extra(r))
        return data.Recording(**kwargs)

    def _annotation_common(self, a):
        kwargs = {
            "tags": [self.tags[i] for i in a.get("tags", [])],
            "notes": [self._note(n) for n in a.get("notes", [])],
        }
        if a.get("created_by") is not None:
            kwargs["created_by"] = self.users[a["created_by"]]
        if "created_on" in a:
            kwargs["created_on"] = _dtm(a["created_on"])
        kwargs.update(_extra(a))
        return kwargs

    def _predicted_tags(self, items):
        data = _data()
        return [
            data.PredictedTag(tag=self.tags[i], score=score)
            for i, score in items
        ]

    def match_kwargs(self, m):
        kwargs = {"uuid": uuidlib.UUID(m["uuid"])}
        if m.get("source") is not None:
            kwargs["source"] = self.se_predictions[m["source"]]
        if m.get("target") is not None:
            kwargs["target"] = self.se_annotations[m["target"]]
        if "affinity" in m:
            kwargs["affinity"] = m["affinity"]
        if m.get("score") is not None:
            kwargs["score"] = m["score"]
        kwargs["metrics"] = _features(m.get("metrics", []))
        kwargs.update(_extra(m))
        return kwargs

    def _match(self, m):
        return _data().Match(**self.match_kwargs(m))

    def clip_evaluation_kwargs(self, e):
        kwargs = {
            "uuid": uuidlib.UUID(e["uuid"]),
            "annotations": self.clip_annotations[e["annotations"]],
            "predictions": self.clip_predictions[e["predictions"]],
            "matches": [self.matches[i] for i in e.get("matches", [])],
            "metrics": _features(e.get("metrics", [])),
        }
        if e.get("score") is not None:
            kwargs["score"] = e["score"]
        kwargs.update(_extra(e))
        return kwargs

    def _clip_evaluation(self, e):
        return _data().ClipEvaluation(**self.clip_evaluation_kwargs(e))

    def _task(self, t):
        data = _data()
        badges = []
        for b in t.get("status_badges", []):
            kwargs = {"state": data.AnnotationState(b["state"])}
            if b.get("owner") is not None:
                kwargs["owner"] = self.users[b["owner"]]
            if "created_on" in b:
                kwargs["created_on"] = _dtm(b["created_on"])
            badges.append(data.StatusBadge(**kwargs))
        kwargs = {
            "uuid": uuidlib.UUID(t["uuid"]),
            "clip": self.clips[t["clip"]],
            "status_badges": badges,
        }
        if "created_on" in t:
            kwargs["created_on"] = _dtm(t["created_on"])
        kwargs.update(_extra(t))
        return data.AnnotationTask(**kwargs)

    # -- roots

    def root_kwargs(self, kind: str) -> dict:
        r = self.spec["roots"][kind]
        kwargs = {"uuid": uuidlib.UUID(r["uuid"])}
        if "created_on" in r:
            kwargs["created_on"] = _dtm(r["created_on"])
        for key in (
            "name",
            "description",
            "instructions",
            "version",
            "evaluation_task",
            "score",
        ):
            if key in r:
                kwargs[key] = r[key]
        if "recordings" in r:
            kwargs["recordings"] = [self.recordings[i] for i in r["recordings"]]
        if "clip_annotations" in r:
            kwargs["clip_annotations"] = [
                self.clip_annotations[i] for i in r["clip_annotations"]
            ]
        if "clip_predictions" in r:
            kwargs["clip_predictions"] = [
                self.clip_predictions[i] for i in r["clip_predictions"]
            ]
        if "clip_evaluations" in r:
            kwargs["clip_evaluations"] = [
                self.clip_evaluations[i] for i in r["clip_evaluations"]
            ]
        if "annotation_tags" in r:
            kwargs["annotation_tags"] = [
                self.tags[i] for i in r["annotation_tags"]
            ]
        if "evaluation_tags" in r:
            kwargs["evaluation_tags"] = [
                self.tags[i] for i in r["evaluation_tags"]
            ]
        if "tasks" in r:
            kwargs["tasks"] = [self.tasks[i] for i in r["tasks"]]
        if "metrics" in r:
            kwargs["metrics"] = _features(r["metrics"])
        kwargs.update(_extra(r))
        return kwargs

    def root(self, kind: str):
        if kind not in self.roots:
            data = _data()
            cls = {
                "recording_set": data.RecordingSet,
                "dataset": data.Dataset,
                "annotation_set": data.AnnotationSet,
                "annotation_project": data.AnnotationProject,
                "evaluation_set": data.EvaluationSet,
                "prediction_set": data.PredictionSet,
                "model_run": data.ModelRun,
                "evaluation": data.Evaluation,
            }[kind]
            self.roots[kind] = cls(**self.root_kwargs(kind))
        return self.roots[kind]


# ------------------------------------------------------------------- canon

KIND_OF_CLASS = {
    "User": "users",
    "Tag": "tags",
    "Recording": "recordings",
    "Clip": "clips",
    "SoundEvent": "sound_events",
    "Sequence": "sequences",
    "SoundEventAnnotation": "sound_event_annotations",
    "SequenceAnnotation": "sequence_annotations",
    "ClipAnnotation": "clip_annotations",
    "SoundEventPrediction": "sound_event_predictions",
    "SequencePrediction": "sequence_predictions",
    "ClipPrediction": "clip_predictions",
    "Match": "matches",
    "ClipEvaluation": "clip_evaluations",
    "AnnotationTask": "tasks",
}


def _class_name(obj) -> str:
    """Name of the nearest soundevent.data class (subclass-proof)."""
    for cls in type(obj).__mro__:
        if cls.__module__.startswith("soundevent.data"):
            return cls.__name__
    return type(obj).__name__


class Canon:
    """Value-only canonical form of an object graph.

    Objects that carry a ``uuid`` are emitted once into ``defs`` under the key
    ``<Class>:<uuid>#<version>`` and referred to by that key; two Python
    objects with the same class, uuid and content share a version whatever
    their identity, objects with the same uuid and different content get
    different versions. Everything else is expanded in place. Declared fields
    are found through ``model_fields`` and read with ``getattr`` (never through
    ``model_dump``), so an excluded or aliased field cannot hide.
    """

    def __init__(self):
        self.defs: dict = {}
        self._by_identity: dict = {}
        self._versions: dict = {}  # (cls, uuid) -> [(jtext, key)]
        self._in_progress: set = set()
        self._keepalive: list = []

    def of(self, obj):
        from pydantic import BaseModel  # noqa: PLC0415

        if obj is None or isinstance(obj, (bool, int, str)):
            return obj
        if isinstance(obj, float):
            return obj
        if isinstance(obj, enum.Enum):
            return {"__enum": obj.value}
        if isinstance(obj, uuidlib.UUID):
            return str(obj)
        if isinstance(obj, os.PathLike):
            return {"__path": os.fspath(obj)}
        if isinstance(obj, dt.datetime):
            return {"__datetime": obj.isoformat()}
        if isinstance(obj, dt.date):
            return {"__date": obj.isoformat()}
        if isinstance(obj, dt.time):
            return {"__time": obj.isoformat()}
        if isinstance(obj, BaseModel):
            return self._model(obj)
        if isinstance(obj, dict):
            return {"__dict": [[self.of(k), self.of(v)] for k, v in obj.items()]}
        if isinstance(obj, (list, tuple)):
            return [self.of(item) for item in obj]
        if hasattr(obj, "__iter__"):
            return [self.of(item) for item in obj]
        return {"__repr": repr(obj)}

    def _model(self, obj):
        name = _class_name(obj)
        if name == "Term":
            # the one permitted reduction: a term is stored as its label
            return {"__term": obj.label}
        ident = getattr(obj, "uuid", None)
        if not isinstance(ident, uuidlib.UUID):
            return self._expand(obj, name)
        if id(obj) in self._by_identity:
            return {"__ref": self._by_identity[id(obj)]}
        if id(obj) in self._in_progress:
            return {"__cycle": f"{name}:{ident}"}
        self._in_progress.add(id(obj))
        try:
            body = self._expand(obj, name)
        finally:
            self._in_progress.discard(id(obj))
        text = _jtext(body)
        versions = self._versions.setdefault((name, str(ident)), [])
        for known_text, key in versions:
            if known_text == text:
                self._by_identity[id(obj)] = key
                return {"__ref": key}
        key = f"{name}:{ident}#{len(versions)}"
        versions.append((text, key))
        self.defs[key] = body
        self._by_identity[id(obj)] = key
        self._keepalive.append(obj)  # id() stays unique while we walk
        return {"__ref": key}

    def _expand(self, obj, name):
        out = {"__type": name}
        for field in type(obj).model_fields:
            out[field] = self.of(getattr(obj, field))
        return out


def _jtext(value) -> str:
    import json  # noqa: PLC0415

    return json.dumps(value, sort_keys=True, allow_nan=True)


def canon(obj) -> dict:
    c = Canon()
    root = c.of(obj)
    return {"root": root, "defs": c.defs}


def reach(obj) -> dict:
    """Distinct objects reachable from obj, per AOEF kind (reference walk)."""
    from pydantic import BaseModel  # noqa: PLC0415

    found = {kind: [] for kind in KIND_OF_CLASS.values()}
    seen_keys = {kind: set() for kind in KIND_OF_CLASS.values()}
    visited = set()
    keep = []

    def walk(value):
        if isinstance(value, BaseModel):
            if id(value) in visited:
                return
            visited.add(id(value))
            keep.append(value)
            name = _class_name(value)
            kind = KIND_OF_CLASS.get(name)
            if kind == "tags":
                key = (value.term.label, value.value)
                if key not in seen_keys[kind]:
                    seen_keys[kind].add(key)
                    found[kind].append(list(key))
            elif kind is not None:
                key = str(value.uuid)
                if key not in seen_keys[kind]:
                    seen_keys[kind].add(key)
                    found[kind].append(key)
            if name == "Term":
                return
            for field in type(value).model_fields:
                walk(getattr(value, field))
        elif isinstance(value, dict):
            for item in value.values():
                walk(item)
        elif isinstance(value, (list, tuple)):
            for item in value:
                walk(item)
        elif hasattr(value, "__iter__") and not isinstance(
            value, (str, bytes, os.PathLike)
        ):
            for item in value:
                walk(item)

    walk(obj)
    return found


def describe(obj) -> dict:
    return {
        "type": _class_name(obj),
        "canon": canon(obj),
        "reach": reach(obj),
    }


# ---------------------------------------------------------------- handlers


def _as(value, how):
    if value is None:
        return None
    if how == "rel" or how.startswith("rel:"):
        # relative to the node's working directory: the run directory or, if
        # it exists by now, one of its sub-directories (the caller changed
        # directory between two library calls)
        root = shims.STATE.root
        if root and str(value).startswith(root.rstrip("/") + "/"):
            cwd = root
            sub = how[4:] if how.startswith("rel:") else ""
            if sub and os.path.isdir(os.path.join(root, sub)):
                cwd = os.path.join(root, sub)
            if os.getcwd() != cwd:
                os.chdir(cwd)
            return os.path.relpath(str(value), cwd)
        return str(value)
    return pathlib.Path(value) if how == "path" else str(value)


def _outcome_of(exc: BaseException) -> dict:
    out = {
        "outcome": "raised",
        "exc": type(exc).__name__,
        "msg": str(exc)[:300],
    }
    title = getattr(exc, "title", None)  # pydantic: the class that refused
    if isinstance(title, str):
        out["title"] = title
        try:
            # ... and the fields it refused ("" = the model as a whole)
            out["locs"] = sorted({
                str(e["loc"][0]) if e.get("loc") else "" for e in exc.errors()
            })
        except Exception:  # noqa: BLE001
            pass
    return out


def _resolve_source(src):
    if "handle" in src:
        return OBJECTS[src["handle"]]
    world = WORLDS.get(src["world"])
    if world is None:
        world = build_world(src["spec"])
        WORLDS[src["world"]] = world
    return world.root(src["root"])


def _constraints(info) -> dict:
    """Declared bounds of a field (annotated-types / pydantic metadata)."""
    out = {}
    for item in getattr(info, "metadata", None) or []:
        for attr in ("ge", "gt", "le", "lt", "max_length", "min_length",
                     "pattern", "multiple_of"):
            value = getattr(item, attr, None)
            if value is not None and isinstance(value, (int, float, str)):
                out[attr] = value
    return out


def h_info():
    from soundevent import data  # noqa: PLC0415

    fields = {}
    for name in dir(data):
        cls = getattr(data, name)
        if isinstance(cls, type) and hasattr(cls, "model_fields"):
            fields[name] = {
                f: {
                    "annotation": str(info.annotation),
                    "required": info.is_required(),
                    "constraints": _constraints(info),
                }
                for f, info in cls.model_fields.items()
            }
    try:
        from soundevent.io.aoef import AOEF_VERSION as version  # noqa: PLC0415
    except Exception:  # noqa: BLE001
        version = None
    return {**TEMPLATE_INFO, "pid": os.getpid(), "fields": fields,
            "aoef_version": version}


def h_describe(src):
    """Phase 1 of a save: what is about to be saved (no soundevent.io call)."""
    try:
        obj = _resolve_source(src)
    except Exception as exc:  # construction refused by soundevent.data
        return _outcome_of(exc)
    return {"outcome": "value", **describe(obj)}


def _audio_args(audio_dir, audio_as):
    """(positional, keyword) arguments carrying the audio directory: by
    keyword, or -- "str:pos" / "path:pos" -- in its documented position."""
    if audio_dir is None:
        return (), {}
    how, _, pos = audio_as.partition(":")
    value = _as(audio_dir, how)
    return ((value,), {}) if pos == "pos" else ((), {"audio_dir": value})


def _api_for(api, path):
    """Inferring the format is only defined for names ending in .json; for
    any other name the caller says nothing about the format (the default)."""
    if api == "infer" and not str(path).endswith(".json"):
        return "io"
    return api


def h_save(src, path, path_as="str", audio_dir=None, audio_as="str", api="io"):
    from soundevent import io as sio  # noqa: PLC0415

    api = _api_for(api, path)

    obj = _resolve_source(src)
    args, kwargs = _audio_args(audio_dir, audio_as)
    try:
        if api == "aoef":
            from soundevent.io import aoef  # noqa: PLC0415

            aoef.save(obj, _as(path, path_as), *args, **kwargs)
        elif api == "infer":
            sio.save(obj, _as(path, path_as), *args, format=None, **kwargs)
        else:
            sio.save(obj, _as(path, path_as), *args, **kwargs)
    except Exception as exc:
        return _outcome_of(exc)
    return {"outcome": "ack"}


def h_load(
    path,
    handle,
    path_as="str",
    audio_dir=None,
    audio_as="str",
    type_arg=None,
    api="io",
):
    from soundevent import io as sio  # noqa: PLC0415

    args, kwargs = _audio_args(audio_dir, audio_as)
    if type_arg is not None:
        kwargs["type"] = type_arg
    api = _api_for(api, path)
    try:
        if api == "aoef":
            from soundevent.io import aoef  # noqa: PLC0415

            obj = aoef.load(_as(path, path_as), *args, **kwargs)
        elif api == "infer":
            obj = sio.load(_as(path, path_as), *args, format=None, **kwargs)
        else:
            obj = sio.load(_as(path, path_as), *args, **kwargs)
    except Exception as exc:
        return _outcome_of(exc)
    OBJECTS[handle] = obj
    return {"outcome": "value", **describe(obj)}


def _collect_models(obj, pools, seen):
    from pydantic import BaseModel  # noqa: PLC0415

    if isinstance(obj, BaseModel):
        if id(obj) in seen:
            return
        seen.add(id(obj))
        pools.setdefault(_class_name(obj), []).append(obj)
        for name in type(obj).model_fields:
            _collect_models(getattr(obj, name, None), pools, seen)
    elif isinstance(obj, (list, tuple)):
        for item in obj:
            _collect_models(item, pools, seen)
    elif isinstance(obj, dict):
        for item in obj.values():
            _collect_models(item, pools, seen)


def _shift(value, by=0.125):
    if isinstance(value, bool):
        return value
    if isinstance(value, (int, float)):
        return value + by
    if isinstance(value, (list, tuple)):
        return [_shift(item, by) for item in value]
    return value


def _apply_edits(pools, roots, rng, seed):
    """A few in-place edits of live objects (same Python objects, same
    identifiers): field values, geometry, paths, features, and the membership
    of lists. Never produces an arrangement the data classes would refuse if
    it were constructed afresh. An edit the model refuses (frozen, validated
    assignment) is recorded as "refused"."""
    done = []

    def pick(name):
        pool = pools.get(name) or []
        return rng.choice(pool) if pool else None

    # clip annotations / predictions that a clip evaluation's matches speak
    # about keep their sound events
    protected = set()
    for ce in pools.get("ClipEvaluation") or []:
        protected.add(id(ce.annotations))
        protected.add(id(ce.predictions))

    def toggle(items, candidate):
        """Remove the last member or add one (the same object may not be
        listed twice by this edit)."""
        if items and (candidate is None or rng.random() < 0.5):
            items.pop()
            return True
        if candidate is not None and all(candidate is not x for x in items):
            items.append(candidate)
            return True
        return False

    for _ in range(rng.randint(2, 6)):
        try:
            kind = rng.randrange(21)
            if kind == 0 and (u := pick("User")) is not None:
                u.name = f"edited {seed} {rng.randrange(1000)}"
                done.append("user.name")
            elif kind == 1 and (r := pick("Recording")) is not None:
                r.latitude = rng.uniform(-90, 90)
                r.rights = f"rights {rng.randrange(1000)}"
                done.append("recording.latitude/rights")
            elif kind == 2 and (r := pick("Recording")) is not None:
                if toggle(r.tags, pick("Tag")):
                    done.append("recording.tags")
            elif kind == 3 and (a := pick("SoundEventAnnotation")) is not None:
                a.tags.reverse()
                if a.notes:
                    a.notes[0].message = f"edited {rng.randrange(1000)}"
                    a.notes[0].is_issue = not a.notes[0].is_issue
                done.append("annotation.tags/notes")
            elif kind == 4 and (c := pick("Clip")) is not None:
                c.end_time = c.end_time + 1.0
                done.append("clip.end_time")
            elif kind == 5 and (p_ := pick("SoundEventPrediction")) is not None:
                p_.score = rng.random()
                done.append("prediction.score")
            elif kind == 6 and (m := pick("Match")) is not None:
                m.affinity = rng.random()
                done.append("match.affinity")
            elif kind == 7 and (t := pick("AnnotationTask")) is not None:
                if t.status_badges:
                    t.status_badges.pop()
                done.append("task.badges")
            elif kind == 8 and roots:
                root = rng.choice(roots)
                if hasattr(root, "description"):
                    root.description = f"described {rng.randrange(1000)}"
                if hasattr(root, "name"):
                    root.name = f"name {rng.randrange(1000)}"
                done.append("root.name/description")
            elif kind == 9 and (se := pick("SoundEvent")) is not None:
                if se.geometry is not None:
                    se.geometry = type(se.geometry)(
                        coordinates=_shift(se.geometry.coordinates)
                    )
                    done.append("sound_event.geometry")
            elif kind == 10 and (r := pick("Recording")) is not None:
                # same directory, another file name
                r.path = r.path.parent / f"moved {rng.randrange(100)} {r.path.name}"
                done.append("recording.path")
            elif kind == 11 and (q := pick("Sequence")) is not None:
                if toggle(q.sound_events, pick("SoundEvent")):
                    done.append("sequence.sound_events")
            elif kind == 12 and (r := pick("Recording")) is not None:
                if toggle(r.owners, pick("User")):
                    done.append("recording.owners")
            elif kind == 13:
                holder = pick(rng.choice(
                    ["Clip", "SoundEvent", "Recording", "ClipAnnotation",
                     "Sequence", "SoundEventPrediction"]
                ))
                feats = getattr(holder, "features", None)
                if feats:
                    f = feats[0]
                    feats[0] = type(f)(term=f.term, value=f.value + 1.0)
                    if len(feats) > 1 and rng.random() < 0.5:
                        feats.pop()
                    done.append("features")
            elif kind == 14:
                which = rng.choice(["ClipAnnotation", "ClipPrediction"])
                parent = pick(which)
                member = pick(
                    "SoundEventAnnotation" if which == "ClipAnnotation"
                    else "SoundEventPrediction"
                )
                if parent is not None and id(parent) not in protected:
                    if toggle(parent.sound_events, member):
                        done.append(f"{which}.sound_events")
            elif kind == 16 and (ce := pick("ClipEvaluation")) is not None:
                ce.score = rng.random()
                if ce.metrics:
                    f = ce.metrics[0]
                    ce.metrics[0] = type(f)(term=f.term, value=f.value + 1.0)
                done.append("clip_evaluation.score/metrics")
            elif kind == 17:
                holder = pick(rng.choice(["SequenceAnnotation", "ClipAnnotation",
                                          "SoundEventAnnotation"]))
                if holder is not None and toggle(holder.tags, pick("Tag")):
                    done.append("annotation.tags")
            elif kind == 18:
                holder = pick(rng.choice(["ClipPrediction", "SequencePrediction",
                                          "SoundEventPrediction"]))
                if holder is not None and holder.tags:
                    pt = holder.tags[0]
                    holder.tags[0] = type(pt)(tag=pt.tag, score=rng.random())
                    done.append("prediction.tags")
            elif kind == 19 and (t := pick("AnnotationTask")) is not None:
                if t.status_badges:
                    b = t.status_badges[0]
                    states = list(type(b.state))
                    b.state = states[(states.index(b.state) + 1) % len(states)]
                    done.append("badge.state")
            elif kind == 20 and (note := pick("Note")) is not None:
                note.created_by = pick("User") if rng.random() < 0.7 else None
                done.append("note.created_by")
            elif kind == 15 and roots:
                root = rng.choice(roots)
                members = getattr(root, MEMBER_FIELD.get(_class_name(root), ""), None)
                if members is not None and len(members) >= 2:
                    members.pop(rng.randrange(len(members)))
                    done.append("root.members")
        except Exception:  # noqa: BLE001  (frozen model, validated assignment)
            done.append("refused")
    return done


def _versions(canon) -> int:
    """Number of identifiers that occur with more than one content."""
    return sum(1 for key in canon["defs"] if not key.endswith("#0"))


def h_edit_loaded(handle, seed):
    """Edit, in place, objects of a collection that ``load`` returned (the
    way a program loads a project, corrects an annotation and saves it)."""
    import random  # noqa: PLC0415

    root = OBJECTS.get(handle)
    if root is None:
        return {"outcome": "skipped"}
    pools = {}
    _collect_models(root, pools, set())
    before = describe(root)
    done = _apply_edits(pools, [root], random.Random(seed), seed)
    after = describe(root)
    if _versions(after["canon"]) > _versions(before["canon"]):
        # the loader handed out two Python objects for one identifier (a
        # model configured to copy nested instances does) and the edit
        # reached only one of them: one identifier, two contents is not
        # something a document can hold, so this is not an input of save
        return {"outcome": "inconsistent", "edits": done}
    return {"outcome": "ack", "edits": done, **after}


def h_touch(world, seed):
    """Edit live objects of an already materialised world *in place* (same
    Python objects, same identifiers, new field values), the way a program
    that holds a collection edits it between two saves."""
    import random  # noqa: PLC0415

    w = WORLDS.get(world)
    if w is None:
        return {"outcome": "skipped"}
    pools = {
        "User": w.users, "Recording": w.recordings, "Tag": w.tags,
        "Clip": w.clips, "SoundEvent": w.sound_events,
        "Sequence": w.sequences, "SoundEventAnnotation": w.se_annotations,
        "ClipAnnotation": w.clip_annotations,
        "SoundEventPrediction": w.se_predictions,
        "ClipPrediction": w.clip_predictions, "Match": w.matches,
        "ClipEvaluation": w.clip_evaluations, "AnnotationTask": w.tasks,
    }
    roots = [w.roots[k] for k in sorted(w.roots)]
    found = {}
    _collect_models(roots, found, set())
    for name in ("Note", "SequenceAnnotation", "SequencePrediction"):
        pools[name] = found.get(name, [])
    done = _apply_edits(pools, roots, random.Random(seed), seed)
    return {"outcome": "ack", "edits": done}


MEMBER_FIELD = {
    "RecordingSet": "recordings",
    "Dataset": "recordings",
    "AnnotationSet": "clip_annotations",
    "AnnotationProject": "clip_annotations",
    "EvaluationSet": "clip_annotations",
    "PredictionSet": "clip_predictions",
    "ModelRun": "clip_predictions",
    "Evaluation": "clip_evaluations",
}


def h_merge(first, second, handle, cut, deep):
    """Build a new collection from parts of two loaded ones (or of one and
    deep copies of its members): the same identifiers are then reached
    through equal but distinct Python objects, as after merging the work of
    two annotators or two partial exports."""
    a = OBJECTS.get(first)
    b = OBJECTS.get(second)
    if a is None or b is None or _class_name(a) != _class_name(b):
        return {"outcome": "skipped"}
    field = MEMBER_FIELD.get(_class_name(a))
    if field is None:
        return {"outcome": "skipped"}
    left = list(getattr(a, field))
    right = list(getattr(b, field))
    if not left or len(left) != len(right):
        return {"outcome": "skipped"}
    k = cut % (len(left) + 1)
    tail = right[k:]
    if deep:
        tail = [m.model_copy(deep=True) for m in tail]
    members = left[:k] + tail
    try:
        # same constructor arguments as the first collection, new members
        kwargs = {f: getattr(a, f) for f in type(a).model_fields}
        kwargs[field] = members
        new = type(a)(**kwargs)
    except Exception as exc:
        return _outcome_of(exc)
    OBJECTS[handle] = new
    return {"outcome": "value", **describe(new)}


MEMDOCS: dict = {}  # handle -> AOEFObject kept in memory by the caller


def h_mem_save(src, doc, audio_dir=None, audio_as="str"):
    """to_aeof: the document stays in memory (no file)."""
    from soundevent.io import aoef  # noqa: PLC0415

    obj = _resolve_source(src)
    kwargs = {}
    if audio_dir is not None:
        kwargs["audio_dir"] = _as(audio_dir, audio_as)
    try:
        MEMDOCS[doc] = aoef.to_aeof(obj, **kwargs)
        text = MEMDOCS[doc].model_dump_json(exclude_none=True)
    except Exception as exc:
        return _outcome_of(exc)
    return {"outcome": "ack", "text": text}


def h_mem_load(doc, handle, audio_dir=None, audio_as="str"):
    """to_soundevent on a document the caller kept in memory (possibly for
    the second or third time)."""
    from soundevent.io import aoef  # noqa: PLC0415

    if doc not in MEMDOCS:
        return {"outcome": "skipped"}
    kwargs = {}
    if audio_dir is not None:
        kwargs["audio_dir"] = _as(audio_dir, audio_as)
    try:
        obj = aoef.to_soundevent(MEMDOCS[doc], **kwargs)
    except Exception as exc:
        return _outcome_of(exc)
    OBJECTS[handle] = obj
    return {"outcome": "value", **describe(obj)}


def h_forget(handle):
    OBJECTS.pop(handle, None)
    return {"outcome": "ack"}


HANDLERS = {
    "info": h_info,
    "describe": h_describe,
    "save": h_save,
    "load": h_load,
    "forget": h_forget,
    "touch": h_touch,
    "edit_loaded": h_edit_loaded,
    "merge": h_merge,
    "mem_save": h_mem_save,
    "mem_load": h_mem_load,
}


def register(name):
    def deco(fn):
        HANDLERS[name] = fn
        return fn

    return deco


# ------------------------------------------------------------------- serve


def serve(conn) -> None:
    while True:
        try:
            request = rpc.recv(conn)
        except rpc.Closed:
            return
        env = request.get("args", {}).pop("_env", None) or {}
        if "clock" in env:
            shims.set_clock(env["clock"])
        if "uuid_stream" in env:
            shims.set_uuid_stream(env["uuid_stream"])
        shims.CLOCK.calls = 0
        shims.UUIDS.calls = 0
        shims.arm(env.get("fault"), env.get("root", "/nonexistent"))
        shims.STATE.root = env.get("root")
        try:
            import locale  # noqa: PLC0415

            locale.setlocale(locale.LC_CTYPE, env.get("locale") or "C.utf8")
        except Exception:  # noqa: BLE001
            pass
        if env.get("tz"):
            try:
                import time as _time  # noqa: PLC0415

                os.environ["TZ"] = env["tz"]
                _time.tzset()
            except Exception:  # noqa: BLE001
                pass
        root = env.get("root")
        if root and os.path.isdir(root) and os.getcwd() != root:
            os.chdir(root)  # every request starts in the run directory
        if root and os.path.isdir(root):
            # temporary files belong to the simulated disk of the run
            import tempfile  # noqa: PLC0415

            tmp = os.path.join(root, "tmp")
            if not os.path.isdir(tmp):
                shims.REAL_MKDIR(tmp)
            os.environ["TMPDIR"] = tmp
            tempfile.tempdir = None
        shims.arm_audio(env.get("audio_fault"))
        try:
            handler = HANDLERS[request["op"]]
            result = handler(**request.get("args", {}))
            fired = shims.disarm()
            if isinstance(result, dict):
                result["_fault_fired"] = fired or shims.AUDIO.fired
                result["_now_calls"] = shims.CLOCK.calls
                result["_uuid_calls"] = shims.UUIDS.calls
            reply = {"result": result}
        except BaseException as exc:  # noqa: BLE001
            shims.disarm()
            reply = {
                "harness_error": f"{type(exc).__name__}: {exc}\n"
                + traceback.format_exc()[-2000:]
            }
        shims.arm_audio(None)
        try:
            rpc.send(conn, reply)
        except (BrokenPipeError, ConnectionResetError):
            return


def b64(data: bytes) -> str:
    return base64.b64encode(data).decode("ascii")


# ------------------------------------------------ C04: four construction paths


def _dump(value, mode):
    from pydantic import BaseModel  # noqa: PLC0415

    if isinstance(value, BaseModel):
        # every declared field by its name, nothing else: this is the input
        # of dict / JSON *validation*, not a document, so the class's
        # serialisation settings (aliases, excluded or computed fields) have
        # no say in it
        return {
            name: _dump(getattr(value, name), mode)
            for name in type(value).model_fields
        }
    if isinstance(value, (list, tuple)):
        return [_dump(item, mode) for item in value]
    if isinstance(value, dict):
        return {k: _dump(v, mode) for k, v in value.items()}
    if mode == "json":
        if isinstance(value, uuidlib.UUID):
            return str(value)
        if isinstance(value, (dt.datetime, dt.date, dt.time)):
            return value.isoformat()
        if isinstance(value, enum.Enum):
            return value.value
        if isinstance(value, os.PathLike):
            return os.fspath(value)
    return value


def _verdict(fn):
    try:
        obj = fn()
    except Exception as exc:
        why = _outcome_of(exc)
        return {"verdict": "reject", "exc": type(exc).__name__,
                "title": why.get("title"), "locs": why.get("locs")}, None
    return {"verdict": "accept"}, obj


def _stamp_version(doc_path):
    """The harness's renderer does not know which format version the library
    under test writes and accepts; the document carries the library's own."""
    import json  # noqa: PLC0415

    try:
        from soundevent.io.aoef import AOEF_VERSION  # noqa: PLC0415
    except Exception:  # noqa: BLE001
        return
    with shims.REAL_OPEN(doc_path, encoding="utf-8") as fp:
        doc = json.load(fp)
    if doc.get("version") != AOEF_VERSION:
        doc["version"] = AOEF_VERSION
        with shims.REAL_OPEN(doc_path, "w", encoding="utf-8") as fp:
            json.dump(doc, fp, ensure_ascii=False)


@register("arrange")
def h_arrange(spec, target, doc_path, handle, base_spec=None):
    """Construct the target object of a (possibly invalid) arrangement through
    the constructor, dict validation, JSON validation and AOEF loading.

    With ``base_spec`` (the valid world the arrangement was derived from, same
    identifiers) the base world is built and validated first in this process,
    and the constructor path reuses its *live* clip annotation / prediction
    objects, brought to the new content by editing their lists in place: the
    arrangement is then reached through a history, not from scratch.
    """
    import json  # noqa: PLC0415

    from soundevent import data, io as sio  # noqa: PLC0415

    cls_name = target["cls"]
    # everything below the target is valid by construction of the mutation;
    # build pools lazily so that an invalid sibling cannot interfere
    lazy = dict(spec)
    cut = {
        "Clip": "clips",
        "SoundEventPrediction": "se_predictions",
        "SequencePrediction": "seq_predictions",
        "PredictedTag": "se_predictions",
        "Match": "matches",
        "ClipEvaluation": "clip_evaluations",
        "AnnotationProject": None,
    }[cls_name]
    order = [
        "users", "tags", "recordings", "clips", "sound_events", "sequences",
        "se_annotations", "seq_annotations", "clip_annotations",
        "se_predictions", "seq_predictions", "clip_predictions", "matches",
        "clip_evaluations", "tasks",
    ]
    if cut is not None:
        for pool in order[order.index(cut):]:
            lazy[pool] = []
    try:
        world = build_world(lazy)
    except Exception as exc:
        return {
            "outcome": "raised",
            "exc": type(exc).__name__,
            "msg": f"substrate of the arrangement did not build: {exc}"[:300],
        }
    i = target.get("index", 0)
    base_world = None
    if base_spec is not None:
        try:
            base_world = build_world(base_spec)  # validated first, same identifiers
        except Exception as exc:
            return {**_outcome_of(exc), "base": True}
        for kind in ("evaluation", "annotation_project"):
            try:
                base_world.root(kind)
            except Exception:  # noqa: BLE001
                pass
    if cls_name == "Clip":
        c = spec["clips"][i]
        cls = data.Clip
        kwargs = {
            "uuid": uuidlib.UUID(c["uuid"]),
            "recording": world.recordings[c["recording"]],
            "start_time": c["start_time"],
            "end_time": c["end_time"],
            "features": _features(c.get("features", [])),
        }
    elif cls_name in ("SoundEventPrediction", "SequencePrediction"):
        pool = (
            "se_predictions"
            if cls_name == "SoundEventPrediction"
            else "seq_predictions"
        )
        p = spec[pool][i]
        cls = getattr(data, cls_name)
        kwargs = {
            "uuid": uuidlib.UUID(p["uuid"]),
            "tags": world._predicted_tags(p.get("tags", [])),
        }
        if cls_name == "SoundEventPrediction":
            kwargs["sound_event"] = world.sound_events[p["sound_event"]]
        else:
            kwargs["sequence"] = world.sequences[p["sequence"]]
        if "score" in p:
            kwargs["score"] = p["score"]
    elif cls_name == "PredictedTag":
        tag_i, score = spec[target["pool"]][i]["tags"][target["pos"]]
        cls = data.PredictedTag
        kwargs = {"tag": world.tags[tag_i], "score": score}
    elif cls_name == "Match":
        cls = data.Match
        kwargs = world.match_kwargs(spec["matches"][i])
    elif cls_name == "ClipEvaluation":
        cls = data.ClipEvaluation
        e = spec["clip_evaluations"][i]
        kwargs = world.clip_evaluation_kwargs(e)
        if base_world is not None:
            for key, pool, items in (
                ("annotations", "clip_annotations", "se_annotations"),
                ("predictions", "clip_predictions", "se_predictions"),
            ):
                idx = e[key]
                if (
                    idx < len(base_spec[pool])
                    and base_spec[pool][idx]["uuid"] == spec[pool][idx]["uuid"]
                ):
                    live = getattr(base_world, pool)[idx]
                    new = [
                        getattr(base_world, items)[j]
                        for j in spec[pool][idx].get("sound_events", [])
                    ]
                    try:
                        try:
                            live.sound_events[:] = new
                        except TypeError:
                            live.sound_events = new
                        want_clip = base_world.clips[spec[pool][idx]["clip"]]
                        if live.clip is not want_clip:
                            # the live object is moved to another clip
                            live.clip = want_clip
                    except Exception:  # noqa: BLE001  (frozen / validated
                        continue       # assignment: no in-place history)
                    kwargs[key] = live
            # a match of the base world that keeps its identifier is the
            # *live* object too, brought to its new content by assignment
            for k, j in enumerate(e.get("matches", [])):
                if not (
                    j < len(base_spec["matches"])
                    and base_spec["matches"][j]["uuid"] == spec["matches"][j]["uuid"]
                ):
                    continue
                m, live = spec["matches"][j], base_world.matches[j]
                if m != base_spec["matches"][j]:
                    try:
                        live.source = (
                            None if m.get("source") is None
                            else base_world.se_predictions[m["source"]]
                        )
                        live.target = (
                            None if m.get("target") is None
                            else base_world.se_annotations[m["target"]]
                        )
                        if "affinity" in m:
                            live.affinity = m["affinity"]
                        live.score = m.get("score")
                    except Exception:  # noqa: BLE001  (assignment refused)
                        continue
                kwargs["matches"][k] = live
    elif cls_name == "AnnotationProject":
        cls = data.AnnotationProject
        kwargs = world.root_kwargs("annotation_project")
        if base_world is not None:
            # live tasks of the base world (same identifiers), moved to
            # their new clip by assignment
            root = spec["roots"]["annotation_project"]
            for k, j in enumerate(root.get("tasks", [])):
                if not (
                    j < len(base_spec["tasks"])
                    and base_spec["tasks"][j]["uuid"] == spec["tasks"][j]["uuid"]
                ):
                    continue
                live = base_world.tasks[j]
                try:
                    want_clip = base_world.clips[spec["tasks"][j]["clip"]]
                    if live.clip is not want_clip:
                        live.clip = want_clip
                except Exception:  # noqa: BLE001
                    continue
                kwargs["tasks"][k] = live
    else:
        raise ValueError(cls_name)

    if handle % 2 == 0:
        # "no matches" / "no tasks" said by leaving the argument out
        for name in ("matches", "tasks"):
            if kwargs.get(name) == [] and not cls.model_fields[name].is_required():
                del kwargs[name]
    out = {"outcome": "value", "paths": {}}
    v_ctor, o_ctor = _verdict(lambda: cls(**kwargs))
    out["paths"]["ctor"] = v_ctor
    as_dict = {k: _dump(v, "python") for k, v in kwargs.items()}
    v_dict, o_dict = _verdict(lambda: cls.model_validate(as_dict))
    out["paths"]["dict"] = v_dict
    text = json.dumps({k: _dump(v, "json") for k, v in kwargs.items()})
    v_json, o_json = _verdict(lambda: cls.model_validate_json(text))
    out["paths"]["json"] = v_json
    _stamp_version(doc_path)
    v_aoef, o_aoef = _verdict(lambda: sio.load(doc_path))
    out["paths"]["aoef"] = v_aoef
    canons = {}
    # fields of the target that no path was given a value for take their
    # default on each path separately (a fresh identifier, the time of the
    # call): not part of "the same object whatever the path"
    defaulted = set(cls.model_fields) - set(kwargs)
    for name, obj in (("ctor", o_ctor), ("dict", o_dict), ("json", o_json)):
        if obj is not None:
            c = canon(obj)
            body = c["root"]
            if isinstance(body, dict) and "__ref" in body:
                body = c["defs"][body["__ref"]]
            if isinstance(body, dict):
                for field in defaulted:
                    body.pop(field, None)
            canons[name] = c
    out["canons"] = canons
    if o_aoef is not None:
        OBJECTS[handle] = o_aoef
        out["aoef_canon"] = canon(o_aoef)
    return out


# ----------------------------------------------------------- C15: audio world


def _array_payload(arr, with_data=True):
    import numpy as np  # noqa: PLC0415

    def plain(dim):
        # a dimension may be named by a str-valued enum member
        return dim.value if isinstance(dim, enum.Enum) else str(dim)

    coords = {}
    for dim in arr.dims:
        if dim not in arr.coords:
            continue
        values = np.asarray(arr.coords[dim].values)
        entry = {"n": int(values.shape[0])}
        if values.dtype.kind in "fiu":
            entry["values"] = b64(values.astype("<f8").tobytes())
        step = arr.coords[dim].attrs.get("step")
        entry["step"] = None if step is None else float(step)
        coords[plain(dim)] = entry
    out = {
        "outcome": "value",
        "dims": [plain(d) for d in arr.dims],
        "shape": [int(n) for n in arr.shape],
        "coords": coords,
    }
    if with_data:
        out["data"] = b64(np.ascontiguousarray(arr.values, dtype="<f8").tobytes())
    return out




FROM_FILE = {}  # path -> the Recording that from_file returned last
CLIPS = {}  # (id(recording), start, end) -> live Clip


def _clip_from(rec, start, end, fresh=False):
    """The caller's Clip object for this window: the same object when the
    same window of the same recording is loaded again."""
    key = (id(rec), repr(start), repr(end))
    if not fresh and key in CLIPS:
        return CLIPS[key]
    clip = _data().Clip(recording=rec, start_time=start, end_time=end)
    CLIPS[key] = clip
    return clip


def _recording_from(spec, fresh=False):
    """The Recording a caller holds for this file: the same live object from
    call to call (whatever a library call attached to it stays attached),
    unless the caller built a new one."""
    key = _jtext(spec)
    if not fresh and key in RECORDINGS:
        return RECORDINGS[key]
    made = FROM_FILE.get(spec["path"])
    if (
        not fresh and made is not None
        and (made.duration, made.samplerate, made.channels, made.time_expansion)
        == (spec["duration"], spec["samplerate"], spec["channels"],
            spec.get("time_expansion", 1.0))
    ):
        # the very object Recording.from_file returned (with its hash and
        # whatever else from_file attached to it)
        RECORDINGS[key] = made
        return made
    data = _data()
    rec = data.Recording(
        uuid=uuidlib.UUID(spec["uuid"]),
        path=pathlib.Path(spec["path"]),
        duration=spec["duration"],
        channels=spec["channels"],
        samplerate=spec["samplerate"],
        time_expansion=spec.get("time_expansion", 1.0),
    )
    RECORDINGS[key] = rec
    return rec


@register("a_from_file")
def a_from_file(path, time_expansion=1.0, compute_hash=True):
    data = _data()
    try:
        rec = data.Recording.from_file(
            path, time_expansion=time_expansion, compute_hash=compute_hash
        )
    except Exception as exc:
        return _outcome_of(exc)
    FROM_FILE[str(path)] = rec
    return {
        "outcome": "value",
        "duration": rec.duration,
        "samplerate": rec.samplerate,
        "channels": rec.channels,
        "time_expansion": rec.time_expansion,
        "hash": rec.hash,
    }


def _audio_kwargs(audio_dir, audio_as):
    kwargs = {}
    if audio_dir is not None and str(audio_dir).startswith("cwd:"):
        os.chdir(str(audio_dir)[4:])
    elif audio_dir is not None:
        kwargs["audio_dir"] = _as(audio_dir, audio_as)
    return kwargs


@register("a_load_clip")
def a_load_clip(recording, start, end, handle, audio_dir=None, audio_as="str",
                fresh=False):
    from soundevent import audio  # noqa: PLC0415

    data = _data()
    try:
        rec = _recording_from(recording, fresh)
        clip = _clip_from(rec, start, end, fresh)
    except Exception as exc:
        # the data classes refuse this recording / clip: not an input
        return {**_outcome_of(exc), "outcome": "refused"}
    kwargs = _audio_kwargs(audio_dir, audio_as)
    try:
        arr = audio.load_clip(clip, **kwargs)
    except Exception as exc:
        return _outcome_of(exc)
    ARRAYS[handle] = arr
    return _array_payload(arr)


@register("a_load_recording")
def a_load_recording(recording, handle, audio_dir=None, audio_as="str",
                     fresh=False):
    from soundevent import audio  # noqa: PLC0415

    try:
        rec = _recording_from(recording, fresh)
    except Exception as exc:
        return {**_outcome_of(exc), "outcome": "refused"}
    kwargs = _audio_kwargs(audio_dir, audio_as)
    try:
        arr = audio.load_recording(rec, **kwargs)
    except Exception as exc:
        return _outcome_of(exc)
    ARRAYS[handle] = arr
    return _array_payload(arr)


@register("a_resample")
def a_resample(source, target_samplerate, handle, transpose=False):
    from soundevent import audio  # noqa: PLC0415

    try:
        src = ARRAYS[source]
        if transpose:
            # the same array, stored the other way round (time is not axis 0)
            src = src.transpose(*reversed(src.dims))
        arr = audio.resample(src, target_samplerate)
    except Exception as exc:
        return _outcome_of(exc)
    ARRAYS[handle] = arr
    return _array_payload(arr, with_data=False)


@register("a_spectrogram")
def a_spectrogram(source, window_size, hop_size, handle):
    from soundevent import audio  # noqa: PLC0415

    try:
        arr = audio.compute_spectrogram(
            ARRAYS[source], window_size=window_size, hop_size=hop_size
        )
    except Exception as exc:
        return _outcome_of(exc)
    ARRAYS[handle] = arr
    return _array_payload(arr, with_data=False)


@register("a_chain")
def a_chain(recording, windows, window_size, hop_size, audio_dir=None,
            audio_as="str"):
    """What a batch job does: for each window, load the clip and compute its
    spectrogram inside a function; nothing is kept, so arrays are freed and
    their memory (and id()) is reused from one iteration to the next."""
    from soundevent import audio  # noqa: PLC0415

    data = _data()
    kwargs = _audio_kwargs(audio_dir, audio_as)
    try:
        rec = _recording_from(recording)
    except Exception as exc:
        return {**_outcome_of(exc), "outcome": "refused"}

    def one(start, end):
        wav = audio.load_clip(
            data.Clip(recording=rec, start_time=start, end_time=end), **kwargs
        )
        spec = audio.compute_spectrogram(
            wav, window_size=window_size, hop_size=hop_size
        )
        return _array_payload(wav, with_data=False), _array_payload(
            spec, with_data=False
        )

    out = []
    for start, end in windows:
        try:
            wav, spec = one(start, end)
            out.append({"outcome": "value", "wav": wav, "spec": spec})
        except Exception as exc:
            out.append(_outcome_of(exc))
    return {"outcome": "value", "items": out}


@register("a_scribble")
def a_scribble(handle):
    """The caller modifies, in place, an array an earlier call returned."""
    arr = ARRAYS.get(handle)
    if arr is None:
        return {"outcome": "raised", "exc": "KeyError", "msg": "no such array"}
    try:
        arr.values[...] = arr.values * 0.5 + 0.25
    except Exception as exc:
        return _outcome_of(exc)
    return {"outcome": "ack"}


@register("a_again")
def a_again(handle):
    """Return, once more, an array an earlier call produced (is it still the
    array that call returned?)."""
    arr = ARRAYS.get(handle)
    if arr is None:
        return {"outcome": "raised", "exc": "KeyError", "msg": "no such array"}
    return _array_payload(arr, with_data=True)
