"""simlab — deterministic simulation with fault injection for soundevent.

Layout (see /verif/DESIGN.md section 3):

core.py      seeds, PRNG derivation, event log, exit codes, violation type
rpc.py       length-prefixed JSON messages over unix stream sockets
shims.py     seam shims installed inside the template process (clock, uuid4,
             disk fault wrappers); imported only by template / nodes
nodes.py     template process, node processes, worker-side handles
nodeside.py  request handlers that run real soundevent code inside a node
specs.py     world-spec generation (plain JSON), editing, pruning
aoefdoc.py   AOEF 1.1.0 reference table, closure analysis of written documents
sim_aoef.py  simulated world for C01 / C02 / C18 (save / load histories)
sim_inv.py   simulated world for C04 (storage faults in stored documents)
sim_audio.py simulated world for C15 (audio files that move under the reader)
minimise.py  ddmin over operation lists + spec pruning
runner.py    worker pool, budgets, evidence, replay files
"""

ENGINE_VERSION = "simlab-1"
