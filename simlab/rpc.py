"""Length-prefixed JSON messages over a unix stream socket."""

from __future__ import annotations

import json
import socket
import struct

_HDR = struct.Struct("!I")


class Closed(Exception):
    """Peer closed the connection (for a node: the process died)."""


def send(sock: socket.socket, obj) -> None:
    data = json.dumps(obj, ensure_ascii=False, allow_nan=True).encode(
        "utf-8", "surrogatepass"
    )
    sock.sendall(_HDR.pack(len(data)) + data)


def _recv_exact(sock: socket.socket, n: int) -> bytes:
    chunks = []
    while n:
        chunk = sock.recv(min(n, 1 << 20))
        if not chunk:
            raise Closed()
        chunks.append(chunk)
        n -= len(chunk)
    return b"".join(chunks)


def recv(sock: socket.socket):
    try:
        (n,) = _HDR.unpack(_recv_exact(sock, _HDR.size))
        data = _recv_exact(sock, n)
    except (ConnectionResetError, BrokenPipeError):
        raise Closed() from None
    return json.loads(data.decode("utf-8", "surrogatepass"))
