"""World specs: plain-JSON descriptions of soundevent object graphs.

The scheduler never holds a soundevent object. It draws a *spec* (pools of
entities that refer to each other by pool index, plus one root per collection
type); a node materialises it through the public constructors
(nodeside.World). Format: DESIGN.md appendix A.

Two PRNGs: ``rs`` decides structure (counts, references, identifiers, paths),
``rv`` decides values (strings, numbers, timestamps, presence of optional
fields). ``edit`` = same structure seed, new value seed: same identifiers,
new field values.
"""

from __future__ import annotations

import copy
import datetime as dt
import math
import random
import struct
import unicodedata
import uuid as uuidlib

from .core import derive_rng

ROOT_KINDS = [
    "recording_set",
    "dataset",
    "annotation_set",
    "annotation_project",
    "evaluation_set",
    "prediction_set",
    "model_run",
    "evaluation",
]

GEOMETRY_KINDS = [
    "TimeStamp",
    "TimeInterval",
    "Point",
    "LineString",
    "Polygon",
    "BoundingBox",
    "MultiPoint",
    "MultiLineString",
    "MultiPolygon",
]

MAX_FREQUENCY = 5_000_000

STRINGS = [
    "",
    "a",
    "Myotis myotis",
    "with  two spaces",
    "ünï-cödé",
    "日本語のラベル",
    "emoji 🎵🦇",
    'quote " and \\ backslash',
    "line\nbreak",
    "tab\tsep",
    "nul\x00char",
    "{\"json\": [1, 2]}",
    "x" * 257,
    "long text " * 150,  # 1500 characters
    "cafe\u0301 au lait",  # decomposed (NFD) free text
    "A\u030angstro\u0308m \ufb01 \u2126",  # NFC / NFKC would change it
    "None",
    "null",
    "0",
    "1.0",
    " leading and trailing ",
]

LABELS = [
    "species",
    "event",
    "call type",
    "ünï",
    "snr",
    "duration",
    "low_freq",
    "high freq",
    "soundevent:label",
    "a",
    "b",
    "c",
    "日本",
    "x.y",
    "k/v",
    "k:v",
    " lead blank",
    "Upper Case",
    "trail blank ",
]

AUDIO_ROOTS = [
    "/simA/aud",
    "/simB/data set/ünï",
    "/simA/audio2",
    "rel/aud",
    "/simC",
    "/simA/aud/deeper/still",
]

# "cafe\u0301" / "grabacio\u0308n" are spelled with combining characters
# (NFD): a path is a sequence of code points, not of glyphs
PATH_PARTS = ["x", "sub dir", "ünï", "a.b", "rec-01", "2024", "日本",
              "cafe\u0301", "grabacio\u0308n", " lead", "trail ", "latest",
              # characters that mean something to other systems (a Windows
              # separator, a drive colon, URL escapes, a home directory) and
              # are ordinary characters of a POSIX file name
              "take\\2", "100%", "%20x", "~tmp", "c:d", "a#b", "q?", "[x]"]

STATES = ["assigned", "completed", "verified", "rejected"]


# ------------------------------------------------- declared-field coverage

# fields the hand-written builders below know about, per data class
KNOWN_FIELDS = {
    "User": {"uuid", "username", "email", "name", "institution"},
    "Note": {"uuid", "message", "created_by", "is_issue", "created_on"},
    "Recording": {
        "uuid", "path", "duration", "channels", "samplerate",
        "time_expansion", "hash", "date", "time", "latitude", "longitude",
        "license", "owners", "rights", "tags", "features", "notes",
    },
    "Clip": {"uuid", "recording", "start_time", "end_time", "features"},
    "SoundEvent": {"uuid", "geometry", "recording", "features"},
    "Sequence": {"uuid", "sound_events", "features", "parent"},
    "SoundEventAnnotation": {
        "uuid", "sound_event", "notes", "tags", "created_by", "created_on",
    },
    "SequenceAnnotation": {
        "uuid", "sequence", "notes", "tags", "created_by", "created_on",
    },
    "ClipAnnotation": {
        "uuid", "clip", "sound_events", "sequences", "tags", "notes",
        "created_on",
    },
    "SoundEventPrediction": {"uuid", "sound_event", "score", "tags"},
    "SequencePrediction": {"uuid", "sequence", "score", "tags"},
    "ClipPrediction": {
        "uuid", "clip", "sound_events", "sequences", "tags", "features",
    },
    "Match": {"uuid", "source", "target", "affinity", "score", "metrics"},
    "ClipEvaluation": {
        "uuid", "annotations", "predictions", "matches", "metrics", "score",
    },
    "AnnotationTask": {"uuid", "clip", "status_badges", "created_on"},
    "RecordingSet": {"uuid", "recordings", "created_on"},
    "Dataset": {"uuid", "recordings", "created_on", "name", "description"},
    "AnnotationSet": {"uuid", "clip_annotations", "created_on"},
    "AnnotationProject": {
        "uuid", "clip_annotations", "created_on", "name", "description",
        "instructions", "annotation_tags", "tasks",
    },
    "EvaluationSet": {
        "uuid", "clip_annotations", "created_on", "name", "description",
        "evaluation_tags",
    },
    "PredictionSet": {"uuid", "clip_predictions", "created_on"},
    "ModelRun": {
        "uuid", "clip_predictions", "created_on", "name", "version",
        "description",
    },
    "Evaluation": {
        "uuid", "created_on", "evaluation_task", "clip_evaluations",
        "metrics", "score",
    },
    "PredictedTag": {"tag", "score"},
    "StatusBadge": {"state", "owner", "created_on"},
    "Tag": {"term", "value"},
    "Feature": {"term", "value"},
}

POOL_CLASS = {
    "users": "User",
    "recordings": "Recording",
    "clips": "Clip",
    "sound_events": "SoundEvent",
    "sequences": "Sequence",
    "se_annotations": "SoundEventAnnotation",
    "seq_annotations": "SequenceAnnotation",
    "clip_annotations": "ClipAnnotation",
    "se_predictions": "SoundEventPrediction",
    "seq_predictions": "SequencePrediction",
    "clip_predictions": "ClipPrediction",
    "matches": "Match",
    "clip_evaluations": "ClipEvaluation",
    "tasks": "AnnotationTask",
}
ROOT_CLASS = {
    "recording_set": "RecordingSet",
    "dataset": "Dataset",
    "annotation_set": "AnnotationSet",
    "annotation_project": "AnnotationProject",
    "evaluation_set": "EvaluationSet",
    "prediction_set": "PredictionSet",
    "model_run": "ModelRun",
    "evaluation": "Evaluation",
}

# filled by the worker from the template's report of model_fields:
# class -> {field: annotation string}; fields that the builders do not know
# are filled generically when their type is simple ("every declared field"
# must survive a field being added to a data class)
EXTRA_FIELDS: dict = {}
UNEXERCISED_FIELDS: list = []

_SIMPLE = {
    "<class 'str'>": "str",
    "typing.Optional[str]": "str",
    "<class 'float'>": "float",
    "typing.Optional[float]": "float",
    "<class 'int'>": "int",
    "typing.Optional[int]": "int",
    "<class 'bool'>": "bool",
    "typing.Optional[bool]": "bool",
    "typing.List[str]": "liststr",
    "typing.Optional[typing.List[str]]": "liststr",
    "list[str]": "liststr",
    "<class 'datetime.datetime'>": "datetime",
    "typing.Optional[datetime.datetime]": "datetime",
}


for _text, _kind in list(_SIMPLE.items()):
    # other spellings of the same annotations (PEP 604, lower-case generics)
    if _text.startswith("typing.Optional[") and _text.endswith("]"):
        _inner = _text[len("typing.Optional["):-1]
        _inner = _inner.replace("typing.List", "list")
        for _spelling in (f"{_inner} | None", f"None | {_inner}",
                          f"typing.Optional[{_inner}]",
                          f"typing.Union[{_inner}, NoneType]"):
            _SIMPLE.setdefault(_spelling, _kind)
_SIMPLE.setdefault("str | None", "str")
_SIMPLE.setdefault("int | None", "int")
_SIMPLE.setdefault("float | None", "float")
_SIMPLE.setdefault("bool | None", "bool")
_SIMPLE.setdefault("datetime.datetime | None", "datetime")


def set_declared_fields(fields: dict) -> None:
    """Called once per worker with nodeside.h_info()['fields']."""
    EXTRA_FIELDS.clear()
    del UNEXERCISED_FIELDS[:]
    for cls, known in KNOWN_FIELDS.items():
        for name, info in sorted((fields.get(cls) or {}).items()):
            if name in known:
                continue
            kind = _SIMPLE.get(info["annotation"])
            bounds = info.get("constraints") or {}
            if kind is None or "pattern" in bounds or "multiple_of" in bounds:
                UNEXERCISED_FIELDS.append(f"{cls}.{name}: {info['annotation']}")
            else:
                EXTRA_FIELDS.setdefault(cls, {})[name] = (
                    kind, bounds, bool(info.get("required")),
                )


def fill_extra(entity: dict, cls: str, rv, cfg) -> dict:
    """Values for declared fields the builders do not know (a field added to a
    data class): within the field's declared bounds, and an optional field is
    also left unset."""
    extra = {}
    for name, (kind, bounds, required) in EXTRA_FIELDS.get(cls, {}).items():
        if not required and rv.random() < 0.4:
            continue
        if kind == "str":
            value = gen_str(rv, cfg) or "x"
            if "max_length" in bounds:
                value = value[: int(bounds["max_length"])]
            if len(value) < int(bounds.get("min_length", 0)):
                value = value + "x" * (int(bounds["min_length"]) - len(value))
            extra[name] = value
        elif kind == "float":
            if bounds:
                lo = bounds.get("ge", bounds.get("gt", -1000.0))
                hi = bounds.get("le", bounds.get("lt", 1000.0))
                if "gt" in bounds:
                    lo = math.nextafter(float(lo), math.inf)
                if "lt" in bounds:
                    hi = math.nextafter(float(hi), -math.inf)
                hi = max(float(hi), float(lo))
                extra[name] = rv.choice(
                    [float(lo), float(hi), rv.uniform(float(lo), float(hi))]
                )
            else:
                extra[name] = gen_float(rv, cfg)
        elif kind == "int":
            lo = bounds.get("ge", bounds["gt"] + 1 if "gt" in bounds else -1000)
            hi = bounds.get("le", bounds["lt"] - 1 if "lt" in bounds else 1000)
            lo = int(math.ceil(lo))
            hi = max(int(math.floor(hi)), lo)
            extra[name] = rv.choice([lo, hi, rv.randint(lo, hi)])
        elif kind == "bool":
            extra[name] = rv.random() < 0.5
        elif kind == "liststr":
            extra[name] = [gen_str(rv, cfg) for _ in range(rv.randint(1, 2))]
        elif kind == "datetime":
            extra[name] = {"__datetime": gen_datetime(rv, cfg)}
    if extra:
        entity["extra"] = extra
    return entity


# ------------------------------------------------------------------ config


def default_cfg() -> dict:
    return {
        "n_users": 3,
        "n_tags": 5,
        "n_recordings": 3,
        "n_clips": 4,
        "n_sound_events": 6,
        "n_sequences": 3,
        "n_per_clip": 4,
        "p_opt": 0.5,
        "p_edge": 0.25,
        "geometries": list(GEOMETRY_KINDS) + [None],
        "audio_root": "/simA/aud",
        "p_outside": 0.0,
        "tz_aware": False,
    }


def draw_cfg(rng: random.Random, focus: str = "C01", tier: str = "quick") -> dict:
    """Swarm: every run gets its own sizes, rates and enabled kinds."""
    cfg = default_cfg()
    cfg["n_users"] = rng.choice([0, 1, 2, 4])
    cfg["n_tags"] = rng.choice([0, 1, 3, 6])
    cfg["n_recordings"] = rng.choice([1, 1, 2, 3])
    cfg["n_clips"] = rng.choice([1, 2, 3, 4])
    cfg["n_sound_events"] = rng.choice([0, 1, 3, 5, 8])
    cfg["n_sequences"] = rng.choice([0, 1, 2, 3])
    cfg["n_per_clip"] = rng.choice([0, 1, 2, 4, 6])
    cfg["p_opt"] = rng.choice([0.15, 0.5, 0.9])
    cfg["p_edge"] = rng.choice([0.0, 0.2, 0.5])
    kinds = list(GEOMETRY_KINDS) + [None]
    if rng.random() < 0.5:
        kinds = rng.sample(kinds, rng.randint(1, 4))
    cfg["geometries"] = kinds
    if tier == "thorough" and rng.random() < 0.3:
        # deeper bounds: larger worlds in a third of the thorough runs
        cfg["n_users"] = rng.choice([4, 6])
        cfg["n_tags"] = rng.choice([6, 10])
        cfg["n_recordings"] = rng.choice([3, 5])
        cfg["n_clips"] = rng.choice([4, 6])
        cfg["n_sound_events"] = rng.choice([8, 14])
        cfg["n_sequences"] = rng.choice([3, 5])
        cfg["n_per_clip"] = rng.choice([4, 8])
        cfg["large"] = True
    if rng.random() < (0.05 if tier == "thorough" else 0.02):
        # bulk: many simple recordings and clips, so that documents reach
        # hundreds of kilobytes and lists hundreds of entries (thresholds,
        # chunking, buffering)
        cfg["n_recordings"] = rng.choice([150, 400, 1000])
        cfg["n_clips"] = rng.choice([4, 200])
        cfg["n_sound_events"] = rng.choice([5, 100])
        cfg["n_per_clip"] = rng.choice([0, 1])
        cfg["p_opt"] = rng.choice([0.15, 0.5])
        cfg["bulk"] = True
        cfg["plain_recordings"] = True
        if rng.random() < 0.15:
            # documents beyond a megabyte (block-wise readers and writers)
            cfg["n_recordings"] = 5000
            cfg["n_clips"] = 4
            cfg["dense_unicode"] = True
    cfg["audio_root"] = rng.choice(AUDIO_ROOTS)
    cfg["tz_aware"] = rng.random() < 0.15
    cfg["p_dup_ref"] = rng.choice([0, 0, 0, 0.1, 0.3])
    if focus == "C18":
        cfg["p_outside"] = rng.choice([0.0, 0.0, 0.2, 0.5])
        cfg["n_recordings"] = rng.choice([1, 2, 3, 3])
    return cfg


# --------------------------------------------------------------- primitives


def _uuid(rs: random.Random) -> str:
    return str(uuidlib.UUID(int=rs.getrandbits(128), version=4))


def _maybe(rv, cfg) -> bool:
    return rv.random() < cfg["p_opt"]


def gen_str(rv, cfg, nonempty=False) -> str:
    if rv.random() < cfg["p_edge"]:
        s = rv.choice(STRINGS)
    else:
        s = "".join(
            rv.choice("abcdefghijklmnopqrstuvwxyz _-ÅßçñΩж")
            for _ in range(rv.randint(1, 12))
        )
    if nonempty and not s:
        s = "n"
    return s


def _from_bits(bits: int) -> float:
    return struct.unpack("<d", struct.pack("<Q", bits))[0]


def gen_float(rv, cfg, lo=None, hi=None) -> float:
    """Finite float in [lo, hi] (either may be None = unbounded)."""
    edge = rv.random() < cfg["p_edge"]
    if lo is not None and hi is not None:
        if edge:
            return float(
                rv.choice(
                    [
                        lo,
                        hi,
                        math.nextafter(lo, hi),
                        math.nextafter(hi, lo),
                        (lo + hi) / 2,
                        lo + (hi - lo) * 0.1,
                    ]
                )
            )
        mode = rv.randint(0, 2)
        x = lo + (hi - lo) * rv.random()
        if mode == 1:
            x = round(x, rv.randint(0, 6))
        x = min(max(x, lo), hi)
        return float(x)
    if edge:
        cands = [
            0.0,
            -0.0,
            5e-324,
            2.2250738585072014e-308,
            1.7976931348623157e308,
            1e308,
            0.1,
            1 / 3,
            1e-7,
            123456789.12345679,
            2.0**53,
            2.0**53 + 2,
            1e22,
            1e23,
        ]
        x = rv.choice(cands)
        if lo is None and rv.random() < 0.5:
            x = -x
        if lo is not None and x < lo:
            x = lo
        return float(x)
    mode = rv.randint(0, 3)
    if mode == 0:
        x = rv.uniform(-1000, 1000)
    elif mode == 1:
        x = round(rv.uniform(-1000, 1000), rv.randint(0, 6))
    elif mode == 2:
        x = float(rv.randint(-100000, 100000))
    else:
        # random bit pattern, re-drawn until finite
        while True:
            x = _from_bits(rv.getrandbits(64))
            if math.isfinite(x):
                break
    if lo is not None and x < lo:
        x = abs(x)
        if x < lo:
            x = lo
    if hi is not None and x > hi:
        x = hi
    return float(x)


def gen_score(rv, cfg) -> float:
    if rv.random() < max(cfg["p_edge"], 0.1):
        return float(
            rv.choice(
                [0.0, 1.0, 0.5, 5e-324, math.nextafter(1.0, 0.0), 1e-9, 1 / 3]
            )
        )
    return rv.random()


def gen_datetime(rv, cfg) -> str:
    base = dt.datetime(1990, 1, 1) + dt.timedelta(
        seconds=rv.randint(0, 40 * 365 * 86400),
        microseconds=rv.choice([0, 1, 999999, rv.randint(0, 999999)]),
    )
    if rv.random() < cfg["p_edge"] / 4:
        base = rv.choice(
            [
                dt.datetime(1, 1, 1, 0, 0, 0),
                dt.datetime(9999, 12, 31, 23, 59, 59, 999999),
                dt.datetime(1970, 1, 1),
                dt.datetime(2000, 2, 29, 12, 0, 0, 500000),
            ]
        )
    if cfg.get("tz_aware") and rv.random() < 0.5:
        offset = rv.choice([0, 60, -300, 330, 765])
        seconds = offset * 60
        if cfg.get("tz_seconds", True) and rv.random() < 0.15:
            # local mean time: an offset with a seconds part (Amsterdam
            # +00:19:32 until 1937, Kolkata +05:53:28 until 1906)
            seconds = rv.choice([1172, 21208, -2670])
        base = base.replace(tzinfo=dt.timezone(dt.timedelta(seconds=seconds)))
    return base.isoformat()


def gen_features(rv, cfg, max_n=3):
    n = rv.randint(0, max_n) if _maybe(rv, cfg) else 0
    labels = rv.sample(LABELS, n)  # distinct within one list
    return [[label, gen_float(rv, cfg)] for label in labels]


def gen_note(rs, rv, cfg, n_users) -> dict:
    note = {"uuid": _uuid(rs), "message": gen_str(rv, cfg)}
    author = rs.randrange(n_users) if n_users and rs.random() < 0.6 else None
    note["created_by"] = author
    if _maybe(rv, cfg):
        note["is_issue"] = rv.random() < 0.5
    note["created_on"] = gen_datetime(rv, cfg)
    return note


def gen_notes(rs, rv, cfg, n_users, max_n=2):
    n = rs.choice([0, 0, 1, max_n])
    return [gen_note(rs, rv, cfg, n_users) for _ in range(n)]


def _pick_some(rs, n_pool, max_n):
    if not n_pool:
        return []
    k = rs.randint(0, min(max_n, n_pool))
    return rs.sample(range(n_pool), k)


def _pick_tags(rs, n_pool, max_n):
    """Like _pick_some, but a list may mention the same tag twice."""
    picked = _pick_some(rs, n_pool, max_n)
    if picked and rs.random() < 0.1:
        picked.insert(rs.randrange(len(picked) + 1), rs.choice(picked))
    return picked


def gen_time(rv, cfg, hi=100.0) -> float:
    return gen_float(rv, cfg, 0.0, hi)


def gen_freq(rv, cfg) -> float:
    return gen_float(rv, cfg, 0.0, float(MAX_FREQUENCY))


def gen_geometry(kind, rv, cfg):
    if kind is None:
        return None

    def pt():
        return [gen_time(rv, cfg), gen_freq(rv, cfg)]

    def line():
        pts = [pt() for _ in range(rv.randint(2, 4))]
        pts.sort(key=lambda p: p[0])
        if not pts[0][0] < pts[-1][0]:
            pts[-1][0] = pts[0][0] + 1.0
        return pts

    def ring():
        return [pt() for _ in range(rv.randint(3, 5))]

    def polygon():
        return [ring() for _ in range(rv.choice([1, 1, 2]))]

    if kind == "TimeStamp":
        coords = gen_time(rv, cfg)
    elif kind == "TimeInterval":
        a, b = sorted([gen_time(rv, cfg), gen_time(rv, cfg)])
        coords = [a, b]
    elif kind == "Point":
        coords = pt()
    elif kind == "LineString":
        coords = line()
    elif kind == "Polygon":
        coords = polygon()
    elif kind == "BoundingBox":
        t = sorted([gen_time(rv, cfg), gen_time(rv, cfg)])
        f = sorted([gen_freq(rv, cfg), gen_freq(rv, cfg)])
        coords = [t[0], f[0], t[1], f[1]]
    elif kind == "MultiPoint":
        coords = [pt() for _ in range(rv.randint(1, 3))]
    elif kind == "MultiLineString":
        coords = [line() for _ in range(rv.randint(1, 3))]
    elif kind == "MultiPolygon":
        coords = [polygon() for _ in range(rv.randint(1, 2))]
    else:
        raise ValueError(kind)
    return {"type": kind, "coordinates": coords}


def join_path(root: str, rel: str) -> str:
    return root.rstrip("/") + "/" + rel


def gen_rel_path(rs) -> str:
    depth = rs.choice([0, 0, 1, 2, 3])
    parts = [rs.choice(PATH_PARTS) for _ in range(depth)]
    if depth and rs.random() < 0.1:
        # directory names repeat along a path: a sub-directory called like
        # (the last component of) an audio directory, "aud/aud/x.wav"
        parts[0] = rs.choice(AUDIO_ROOTS).rsplit("/", 1)[-1]
    if depth and rs.random() < 0.08:
        # a ".." segment that does not leave the directory it is under: a
        # path keeps the spelling it was given ("a/../b.wav" is not "b.wav")
        # ("aud/.." is never written: under another world's root /simA/aud
        # such a path would be inside by spelling and outside by meaning)
        names = {r.rsplit("/", 1)[-1] for r in AUDIO_ROOTS}
        at = rs.randint(1, depth)
        if parts[at - 1] not in names:
            parts.insert(at, "..")
    stem = rs.choice(["rec", "ünï rec", "a b", "x.y", "日本", "0001",
                      "pa\u0301jaro", "Ω", "rec", "a b", "back\\slash",
                      "50%", "c#4", "~x", "t:1"])
    suffix = rs.choice([".wav", ".wav", ".wav", ".wav", ".WAV", ".Wav",
                        ".flac", ".wav.bak", ".tar.gz", "", ".mp3"])
    parts.append(f"{stem}_{rs.randint(0, 999)}{suffix}")
    return "/".join(parts)


def gen_outside_path(rs, root: str) -> str:
    choice = rs.randint(0, 3)
    rel = gen_rel_path(rs)
    if choice == 0:
        return join_path(root + "2", rel)  # prefix-sharing sibling
    if choice == 1:
        return join_path("/elsewhere", rel)
    if choice == 2 and root.startswith("/"):
        return rel  # relative path vs. absolute root
    parent = root.rsplit("/", 1)[0]
    if parent and parent != root and rel.split("/", 1)[0] != root.rsplit("/", 1)[-1]:
        return join_path(parent, rel)  # in the parent, not in the root
    return join_path("/elsewhere", rel)


# ------------------------------------------------------------------- world


def gen_world(struct_seed, value_seed, cfg) -> dict:
    rs = derive_rng("struct", struct_seed)
    rv = derive_rng("value", struct_seed, value_seed)
    root_dir = cfg["audio_root"]

    users = []
    for _ in range(cfg["n_users"]):
        u = {"uuid": _uuid(rs)}
        if _maybe(rv, cfg):
            u["username"] = gen_str(rv, cfg)
        if _maybe(rv, cfg):
            u["email"] = (
                f"{rv.choice(['u', 'u', 'John.Smith', 'U'])}{rv.randint(0, 99)}.{rv.choice(['a', 'bat', 'x-y'])}"
                f"@{rv.choice(['example.org', 'uni.ac.uk', 'sub.dom.io'])}"
            )
        if _maybe(rv, cfg):
            u["name"] = gen_str(rv, cfg)
        if _maybe(rv, cfg):
            u["institution"] = gen_str(rv, cfg)
        users.append(u)
    nu = len(users)

    tags = []
    seen = set()
    for _ in range(cfg["n_tags"]):
        label = rs.choice(LABELS)
        value = gen_str(rv, cfg)
        if tags and rv.random() < 0.2:
            # a distinct tag that differs from an earlier one only by
            # whitespace, case or Unicode normalisation form
            label, base = rv.choice(tags)
            value = rv.choice([
                base + " ", " " + base, base.strip(), base.upper(),
                unicodedata.normalize("NFD", base),
                unicodedata.normalize("NFC", base), base + "\u0301",
            ])
        if (label, value) in seen:
            value = value + f"#{len(tags)}"
        seen.add((label, value))
        tags.append([label, value])
        if rv.random() < 0.12:
            # two distinct tags that read the same once label and value are
            # joined into one string, whatever the separator: ("time",
            # "start:12") and ("time:start", "12")
            sep = rv.choice([":", "/", "|", "=", " ", ",", "", "_", "-", ": "])
            mid = rv.choice(["x", "start", "1", "e\u0301", "k"])
            for pair in ((label, mid + sep + value), (label + sep + mid, value)):
                if pair not in seen:
                    seen.add(pair)
                    tags.append(list(pair))
    nt = len(tags)

    recordings = []
    for _ in range(cfg["n_recordings"]):
        outside = rs.random() < cfg["p_outside"]
        path = (
            gen_outside_path(rs, root_dir)
            if outside
            else join_path(root_dir, gen_rel_path(rs))
        )
        r = {
            "uuid": _uuid(rs),
            "path": path,
            "duration": gen_float(rv, cfg, 0.0, None),
            "channels": rv.choice([1, 2, 4]),
            "samplerate": rv.choice([8000, 44100, 384000, 1, 7919]),
        }
        if rv.random() < cfg["p_edge"] / 2:
            # values at the edge of what the fields' types admit (no schema
            # rule forbids them today)
            r["channels"] = rv.choice([0, 2**31, 2**62])
        if rv.random() < cfg["p_edge"] / 2:
            r["samplerate"] = rv.choice([2**31 + 1, 2**63 - 1, 0])
        if _maybe(rv, cfg):
            r["time_expansion"] = rv.choice(
                [1.0, 0.5, 10.0, 2.5, 0.1, gen_float(rv, cfg, 0.0, None)]
            )
        if cfg.get("plain_recordings"):
            # worlds of a property that does not speak about recordings carry
            # unremarkable ones (a stricter Recording schema is not its business)
            r["duration"] = float(rv.choice([1, 10, 60, 600]))
            r["channels"] = rv.choice([1, 2, 4])
            r["samplerate"] = rv.choice([8000, 44100, 384000, 22050])
            if "time_expansion" in r:
                r["time_expansion"] = rv.choice([1.0, 0.5, 10.0, 2.5])
        if _maybe(rv, cfg):
            r["hash"] = (
                "" if rv.random() < cfg["p_edge"] / 4
                else "%032x" % rv.getrandbits(128)
            )
        if _maybe(rv, cfg):
            r["date"] = (
                dt.date(1990, 1, 1) + dt.timedelta(days=rv.randint(0, 20000))
            ).isoformat()
        if _maybe(rv, cfg):
            r["time"] = dt.time(
                rv.randint(0, 23),
                rv.randint(0, 59),
                rv.randint(0, 59),
                rv.choice([0, 1, 999999, rv.randint(0, 999999)]),
            ).isoformat()
        if _maybe(rv, cfg):
            r["latitude"] = gen_float(rv, cfg, -90.0, 90.0)
        if _maybe(rv, cfg):
            r["longitude"] = gen_float(rv, cfg, -180.0, 180.0)
        if _maybe(rv, cfg):
            r["license"] = gen_str(rv, cfg)
        if _maybe(rv, cfg):
            r["rights"] = gen_str(rv, cfg)
        if cfg.get("dense_unicode"):
            # mostly multi-byte text, so that any byte offset of a large
            # document is likely to fall inside a character
            r["rights"] = rv.choice(
                ["鳥の録音データ第", "コウモリの超音波記録", "ünïcödé rëcördïng "]
            ) * rv.randint(3, 8)
        if recordings and recordings[-1].get("hash") and rv.random() < 0.15:
            # two recordings with the same content hash (a copy of a file)
            r["hash"] = recordings[-1]["hash"]
        r["owners"] = _pick_some(rs, nu, 2)
        r["tags"] = _pick_tags(rs, nt, 3)
        r["features"] = gen_features(rv, cfg)
        r["notes"] = gen_notes(rs, rv, cfg, nu)
        recordings.append(r)
    nr = len(recordings)

    clips = []
    for _ in range(cfg["n_clips"]):
        a, b = sorted([gen_time(rv, cfg), gen_time(rv, cfg)])
        if rv.random() < cfg["p_edge"] / 2:
            b = a  # zero-length clip is valid
        clips.append(
            {
                "uuid": _uuid(rs),
                "recording": rs.randrange(nr),
                "start_time": a,
                "end_time": b,
                "features": gen_features(rv, cfg),
            }
        )
    nc = len(clips)

    sound_events = []
    for _ in range(cfg["n_sound_events"]):
        kind = rv.choice(cfg["geometries"])
        sound_events.append(
            {
                "uuid": _uuid(rs),
                "recording": rs.randrange(nr),
                "geometry": gen_geometry(kind, rv, cfg),
                "features": gen_features(rv, cfg),
            }
        )
    ns = len(sound_events)

    sequences = []
    for i in range(cfg["n_sequences"]):
        parent = None
        if i and rs.random() < 0.6:
            parent = rs.randrange(i)
        sequences.append(
            {
                "uuid": _uuid(rs),
                "sound_events": _pick_some(rs, ns, 4),
                "parent": parent,
                "features": gen_features(rv, cfg),
            }
        )
    nq = len(sequences)

    def annotation_common():
        out = {
            "tags": _pick_tags(rs, nt, 3),
            "notes": gen_notes(rs, rv, cfg, nu),
            "created_by": (
                rs.randrange(nu) if nu and rs.random() < 0.5 else None
            ),
            "created_on": gen_datetime(rv, cfg),
        }
        return out

    def predicted_tags():
        # the same tag may be predicted twice, with different probabilities
        return [[i, gen_score(rv, cfg)] for i in _pick_tags(rs, nt, 3)]

    se_annotations, seq_annotations, clip_annotations = [], [], []
    se_predictions, seq_predictions, clip_predictions = [], [], []
    matches, clip_evaluations = [], []

    for ci in range(nc):
        # annotations of this clip (two clip annotations for clip 0 so that
        # one clip can be annotated twice)
        for _rep in range(2 if (ci == 0 and rs.random() < 0.3) else 1):
            if rs.random() < 0.15:
                continue
            own_se, own_seq = [], []
            if ns:
                for _ in range(rs.randint(0, cfg["n_per_clip"])):
                    if se_annotations and rs.random() < 0.12:
                        own_se.append(rs.randrange(len(se_annotations)))
                        continue  # shared between two parents
                    se_annotations.append(
                        {
                            "uuid": _uuid(rs),
                            "sound_event": rs.randrange(ns),
                            **annotation_common(),
                        }
                    )
                    own_se.append(len(se_annotations) - 1)
            if nq:
                for _ in range(rs.randint(0, 2)):
                    seq_annotations.append(
                        {
                            "uuid": _uuid(rs),
                            "sequence": rs.randrange(nq),
                            **annotation_common(),
                        }
                    )
                    own_seq.append(len(seq_annotations) - 1)
            own_se = list(dict.fromkeys(own_se))
            clip_annotations.append(
                {
                    "uuid": _uuid(rs),
                    "clip": ci,
                    "sound_events": own_se,
                    "sequences": own_seq,
                    "tags": _pick_tags(rs, nt, 3),
                    "notes": gen_notes(rs, rv, cfg, nu),
                    "created_on": gen_datetime(rv, cfg),
                }
            )
        if rs.random() < 0.15:
            continue
        own_se, own_seq = [], []
        if ns:
            for _ in range(rs.randint(0, cfg["n_per_clip"])):
                p = {
                    "uuid": _uuid(rs),
                    "sound_event": rs.randrange(ns),
                    "tags": predicted_tags(),
                }
                if se_annotations and rs.random() < 0.06:
                    # identifiers are unique per kind, not across kinds: a
                    # prediction derived from an annotation may keep its id
                    p["uuid"] = rs.choice(se_annotations)["uuid"]
                    if any(q["uuid"] == p["uuid"] for q in se_predictions):
                        p["uuid"] = _uuid(rs)
                if _maybe(rv, cfg):
                    p["score"] = gen_score(rv, cfg)
                se_predictions.append(p)
                own_se.append(len(se_predictions) - 1)
        if nq:
            for _ in range(rs.randint(0, 2)):
                p = {
                    "uuid": _uuid(rs),
                    "sequence": rs.randrange(nq),
                    "tags": predicted_tags(),
                }
                if _maybe(rv, cfg):
                    p["score"] = gen_score(rv, cfg)
                seq_predictions.append(p)
                own_seq.append(len(seq_predictions) - 1)
        clip_predictions.append(
            {
                "uuid": _uuid(rs),
                "clip": ci,
                "sound_events": own_se,
                "sequences": own_seq,
                "tags": predicted_tags(),
                "features": gen_features(rv, cfg),
            }
        )

    if clip_predictions and rs.random() < 0.25:
        # one clip, predicted twice (two models, two thresholds)
        clip_predictions.append(
            {
                "uuid": _uuid(rs),
                "clip": clip_predictions[0]["clip"],
                "sound_events": [],
                "sequences": [],
                "tags": predicted_tags(),
                "features": gen_features(rv, cfg),
            }
        )

    # clip evaluations: pair a clip annotation and a clip prediction of the
    # same clip and cover every annotated / predicted sound event exactly once
    for ai, ann in enumerate(clip_annotations):
        for pi, pred in enumerate(clip_predictions):
            if ann["clip"] != pred["clip"] or rs.random() < 0.2:
                continue
            targets = list(ann["sound_events"])
            sources = list(pred["sound_events"])
            rs.shuffle(targets)
            rs.shuffle(sources)
            own = []
            n_pairs = rs.randint(0, min(len(targets), len(sources)))
            pairs = [(sources.pop(), targets.pop()) for _ in range(n_pairs)]
            pairs += [(s, None) for s in sources] + [(None, t) for t in targets]
            rs.shuffle(pairs)
            for s, t in pairs:
                m = {
                    "uuid": _uuid(rs),
                    "source": s,
                    "target": t,
                    "affinity": gen_score(rv, cfg),
                    "metrics": gen_features(rv, cfg, 2),
                }
                if _maybe(rv, cfg):
                    m["score"] = gen_score(rv, cfg)
                matches.append(m)
                own.append(len(matches) - 1)
            e = {
                "uuid": _uuid(rs),
                "annotations": ai,
                "predictions": pi,
                "matches": own,
                "metrics": gen_features(rv, cfg, 3),
            }
            if _maybe(rv, cfg):
                e["score"] = gen_score(rv, cfg)
            clip_evaluations.append(e)

    tasks = []
    for ci in range(nc):
        if rs.random() < 0.75:
            badges = []
            for _ in range(rs.choice([0, 1, 2])):
                badges.append(
                    {
                        "state": rv.choice(STATES),
                        "owner": (
                            rs.randrange(nu)
                            if nu and rs.random() < 0.6
                            else None
                        ),
                        "created_on": gen_datetime(rv, cfg),
                    }
                )
            tasks.append(
                {
                    "uuid": _uuid(rs),
                    "clip": ci,
                    "status_badges": badges,
                    "created_on": gen_datetime(rv, cfg),
                }
            )
    if tasks and rs.random() < 0.25:
        # one clip, two tasks (annotate, then review)
        tasks.append(
            {
                "uuid": _uuid(rs),
                "clip": tasks[0]["clip"],
                "status_badges": [],
                "created_on": gen_datetime(rv, cfg),
            }
        )
    task_clips = {t["clip"] for t in tasks}

    def root_common():
        return {"uuid": _uuid(rs), "created_on": gen_datetime(rv, cfg)}

    def opt(key, out):
        if _maybe(rv, cfg):
            out[key] = gen_str(rv, cfg)

    roots = {}
    rec_members = _subset_keep_order(rs, nr, keep=0.8)
    roots["recording_set"] = {**root_common(), "recordings": rec_members}
    ds = {
        **root_common(),
        "recordings": _subset_keep_order(rs, nr, keep=0.8),
        "name": gen_str(rv, cfg),
    }
    opt("description", ds)
    roots["dataset"] = ds
    ann_members = _subset_keep_order(rs, len(clip_annotations), keep=0.85)
    roots["annotation_set"] = {**root_common(), "clip_annotations": ann_members}
    ap = {
        **root_common(),
        "clip_annotations": [
            i
            for i in _subset_keep_order(rs, len(clip_annotations), keep=0.85)
            if clip_annotations[i]["clip"] in task_clips
        ],
        "name": gen_str(rv, cfg),
        "annotation_tags": _pick_tags(rs, nt, 3),
        "tasks": list(range(len(tasks))),
    }
    opt("description", ap)
    opt("instructions", ap)
    roots["annotation_project"] = ap
    es = {
        **root_common(),
        "clip_annotations": _subset_keep_order(
            rs, len(clip_annotations), keep=0.85
        ),
        "name": gen_str(rv, cfg),
        "evaluation_tags": _pick_tags(rs, nt, 3),
    }
    opt("description", es)
    roots["evaluation_set"] = es
    roots["prediction_set"] = {
        **root_common(),
        "clip_predictions": _subset_keep_order(
            rs, len(clip_predictions), keep=0.85
        ),
    }
    mr = {
        **root_common(),
        "clip_predictions": _subset_keep_order(
            rs, len(clip_predictions), keep=0.85
        ),
        "name": gen_str(rv, cfg),
    }
    opt("version", mr)
    opt("description", mr)
    roots["model_run"] = mr
    ev = {
        **root_common(),
        "clip_evaluations": _subset_keep_order(
            rs, len(clip_evaluations), keep=0.85
        ),
        "evaluation_task": gen_str(rv, cfg),
        "metrics": gen_features(rv, cfg, 3),
    }
    if _maybe(rv, cfg):
        ev["score"] = gen_float(rv, cfg, 0.0, 1.0)
    roots["evaluation"] = ev

    if EXTRA_FIELDS:
        pools = {
            "users": users, "recordings": recordings, "clips": clips,
            "sound_events": sound_events, "sequences": sequences,
            "se_annotations": se_annotations,
            "seq_annotations": seq_annotations,
            "clip_annotations": clip_annotations,
            "se_predictions": se_predictions,
            "seq_predictions": seq_predictions,
            "clip_predictions": clip_predictions, "matches": matches,
            "clip_evaluations": clip_evaluations, "tasks": tasks,
        }
        for pool, entities in pools.items():
            for entity in entities:
                fill_extra(entity, POOL_CLASS[pool], rv, cfg)
                for note in entity.get("notes", []):
                    fill_extra(note, "Note", rv, cfg)
        for kind, root in roots.items():
            fill_extra(root, ROOT_CLASS[kind], rv, cfg)

    world = {
        "audio_root": root_dir,
        "users": users,
        "tags": tags,
        "recordings": recordings,
        "clips": clips,
        "sound_events": sound_events,
        "sequences": sequences,
        "se_annotations": se_annotations,
        "seq_annotations": seq_annotations,
        "clip_annotations": clip_annotations,
        "se_predictions": se_predictions,
        "seq_predictions": seq_predictions,
        "clip_predictions": clip_predictions,
        "matches": matches,
        "clip_evaluations": clip_evaluations,
        "tasks": tasks,
        "roots": roots,
    }
    if cfg.get("p_dup_ref"):
        _repeat_references(world, derive_rng("dup", struct_seed),
                           cfg["p_dup_ref"], cfg.get("dup_fields"))
    return world


# reference lists in which the same object may be mentioned twice (the
# collections' own member lists are not among them: there the AOEF table *is*
# the member list, so a member listed twice cannot satisfy both "identifiers
# are unique within their list" and "list order is preserved")
REPEATABLE = [
    ("recordings", "owners"),
    ("sequences", "sound_events"),
    ("clip_annotations", "sound_events"),
    ("clip_annotations", "sequences"),
    ("clip_predictions", "sound_events"),
    ("clip_predictions", "sequences"),
]


def _repeat_references(world, rd, p, only=None):
    for pool, field in REPEATABLE:
        if only is not None and [pool, field] not in only:
            continue
        for rec in world[pool]:
            items = rec.get(field)
            if items and rd.random() < p:
                items.insert(rd.randrange(len(items) + 1), rd.choice(items))


def _subset_keep_order(rs, n, keep=0.8):
    return [i for i in range(n) if rs.random() < keep]


# ----------------------------------------------------------------- helpers

POOLS = [
    "users",
    "tags",
    "recordings",
    "clips",
    "sound_events",
    "sequences",
    "se_annotations",
    "seq_annotations",
    "clip_annotations",
    "se_predictions",
    "seq_predictions",
    "clip_predictions",
    "matches",
    "clip_evaluations",
    "tasks",
]


def spec_key(spec) -> str:
    from .core import jdump, sha  # noqa: PLC0415

    return sha(jdump(spec))[:16]


def entity_kinds(spec) -> int:
    """Number of non-empty pools (the 'graph with >= 4 entity kinds' rule)."""
    return sum(1 for pool in POOLS if spec.get(pool))


def shape_of(spec) -> str:
    """Abstract shape of a world (used to count distinct cases)."""
    return ",".join(f"{len(spec.get(pool, []))}" for pool in POOLS)


def prune_candidates(spec):
    """Simpler variants of a spec, one change each (for the minimiser)."""
    # 1. empty whole derived pools from the top of the dependency order down
    for root_kind, root in spec["roots"].items():
        for key in (
            "recordings",
            "clip_annotations",
            "clip_predictions",
            "clip_evaluations",
            "tasks",
            "annotation_tags",
            "evaluation_tags",
            "metrics",
        ):
            members = root.get(key)
            if members:
                if len(members) > 1:
                    for drop in range(len(members)):
                        cand = copy.deepcopy(spec)
                        del cand["roots"][root_kind][key][drop]
                        yield cand
                elif key != "tasks":
                    cand = copy.deepcopy(spec)
                    cand["roots"][root_kind][key] = []
                    yield cand
    # 2. per entity: empty list-valued value fields, drop optional keys
    list_keys = (
        "owners",
        "tags",
        "features",
        "notes",
        "metrics",
        "status_badges",
        "sequences",
    )
    optional_keys = (
        "username",
        "email",
        "name",
        "institution",
        "time_expansion",
        "hash",
        "date",
        "time",
        "latitude",
        "longitude",
        "license",
        "rights",
        "score",
        "is_issue",
        "description",
        "instructions",
        "version",
    )
    for pool in POOLS:
        for i, entity in enumerate(spec.get(pool, [])):
            if not isinstance(entity, dict):
                continue
            for key in list_keys:
                if entity.get(key):
                    cand = copy.deepcopy(spec)
                    cand[pool][i][key] = []
                    yield cand
            for key in optional_keys:
                if key in entity:
                    cand = copy.deepcopy(spec)
                    del cand[pool][i][key]
                    yield cand
            if entity.get("created_by") is not None:
                cand = copy.deepcopy(spec)
                cand[pool][i]["created_by"] = None
                yield cand
            if entity.get("parent") is not None:
                cand = copy.deepcopy(spec)
                cand[pool][i]["parent"] = None
                yield cand
            if entity.get("geometry") is not None:
                cand = copy.deepcopy(spec)
                cand[pool][i]["geometry"] = None
                yield cand
    for root_kind, root in spec["roots"].items():
        for key in optional_keys:
            if key in root:
                cand = copy.deepcopy(spec)
                del cand["roots"][root_kind][key]
                yield cand


# ------------------------------------------------- pool pruning (minimiser)

# pool -> [(field, target pool, shape)]; shape: one | list | pairs (list of
# [index, score]) | notes (created_by of inline notes) | badges (owner)
REFS = {
    "recordings": [("owners", "users", "list"), ("tags", "tags", "list"),
                   ("notes", "users", "notes")],
    "clips": [("recording", "recordings", "one")],
    "sound_events": [("recording", "recordings", "one")],
    "sequences": [("sound_events", "sound_events", "list"),
                  ("parent", "sequences", "one")],
    "se_annotations": [("sound_event", "sound_events", "one"),
                       ("tags", "tags", "list"), ("created_by", "users", "one"),
                       ("notes", "users", "notes")],
    "seq_annotations": [("sequence", "sequences", "one"),
                        ("tags", "tags", "list"),
                        ("created_by", "users", "one"),
                        ("notes", "users", "notes")],
    "clip_annotations": [("clip", "clips", "one"),
                         ("sound_events", "se_annotations", "list"),
                         ("sequences", "seq_annotations", "list"),
                         ("tags", "tags", "list"), ("notes", "users", "notes")],
    "se_predictions": [("sound_event", "sound_events", "one"),
                       ("tags", "tags", "pairs")],
    "seq_predictions": [("sequence", "sequences", "one"),
                        ("tags", "tags", "pairs")],
    "clip_predictions": [("clip", "clips", "one"),
                         ("sound_events", "se_predictions", "list"),
                         ("sequences", "seq_predictions", "list"),
                         ("tags", "tags", "pairs")],
    "matches": [("source", "se_predictions", "one"),
                ("target", "se_annotations", "one")],
    "clip_evaluations": [("annotations", "clip_annotations", "one"),
                         ("predictions", "clip_predictions", "one"),
                         ("matches", "matches", "list")],
    "tasks": [("clip", "clips", "one"), ("status_badges", "users", "badges")],
}
ROOT_REFS = [
    ("recordings", "recordings"), ("clip_annotations", "clip_annotations"),
    ("clip_predictions", "clip_predictions"),
    ("clip_evaluations", "clip_evaluations"), ("tasks", "tasks"),
    ("annotation_tags", "tags"), ("evaluation_tags", "tags"),
]


def _visit_refs(spec, fn):
    """Call fn(container, key_or_index, target_pool) for every reference."""
    for pool, fields in REFS.items():
        for entity in spec.get(pool, []):
            for field, target, shape in fields:
                value = entity.get(field)
                if value is None:
                    continue
                if shape == "one":
                    fn(entity, field, target)
                elif shape == "list":
                    for i in range(len(value)):
                        fn(value, i, target)
                elif shape == "pairs":
                    for pair in value:
                        fn(pair, 0, target)
                elif shape == "notes":
                    for note in value:
                        if note.get("created_by") is not None:
                            fn(note, "created_by", target)
                elif shape == "badges":
                    for badge in value:
                        if badge.get("owner") is not None:
                            fn(badge, "owner", target)
    for root in spec.get("roots", {}).values():
        for field, target in ROOT_REFS:
            value = root.get(field)
            for i in range(len(value or [])):
                fn(value, i, target)


def drop_unreferenced(spec):
    """Specs with one unreferenced pool entity removed (indices remapped)."""
    used = {pool: set() for pool in POOLS}

    def note(container, key, target):
        used[target].add(container[key])

    _visit_refs(spec, note)
    for pool in reversed(POOLS):
        for idx in reversed(range(len(spec.get(pool, [])))):
            if idx in used[pool]:
                continue
            cand = copy.deepcopy(spec)
            del cand[pool][idx]

            def shift(container, key, target, pool=pool, idx=idx):
                if target == pool and container[key] > idx:
                    container[key] -= 1

            _visit_refs(cand, shift)
            yield cand


_value_prune = prune_candidates


def shrink_reference_lists(spec):
    """Specs with one member removed from a list of references."""
    for pool, fields in REFS.items():
        for i, entity in enumerate(spec.get(pool, [])):
            for field, _target, shape in fields:
                if shape in ("list", "pairs") and entity.get(field):
                    if len(entity[field]) > 1:
                        cand = copy.deepcopy(spec)
                        cand[pool][i][field] = []
                        yield cand
                    for j in range(len(entity[field])):
                        cand = copy.deepcopy(spec)
                        del cand[pool][i][field][j]
                        yield cand


def prune_candidates(spec):  # noqa: F811
    yield from drop_unreferenced(spec)
    yield from shrink_reference_lists(spec)
    yield from _value_prune(spec)


# ------------------------------------------------------------ reach probes


def reach_probes(spec) -> list:
    """Which of the shapes named by the quantifiers of C01 / C02 a world has."""
    out = set()
    roles = {}  # user index -> set of roles

    def role(u, r):
        if u is not None:
            roles.setdefault(u, set()).add(r)

    for pool in POOLS:
        for e in spec.get(pool, []):
            if not isinstance(e, dict):
                continue
            for n in e.get("notes", []) or []:
                role(n.get("created_by"), "note-author")
            if "created_by" in e:
                role(e.get("created_by"), "annotator")
            for b in e.get("status_badges", []) or []:
                role(b.get("owner"), "badge-owner")
            if pool == "recordings":
                for u in e.get("owners", []):
                    role(u, "recording-owner")
    for u, rs in roles.items():
        if len(rs) == 1:
            out.add(f"shape:user-only-as-{next(iter(rs))}")
    tag_roles = {}

    def trole(t, r):
        tag_roles.setdefault(t, set()).add(r)

    for pool in ("recordings", "se_annotations", "seq_annotations",
                 "clip_annotations"):
        for e in spec.get(pool, []):
            for t in e.get("tags", []):
                trole(t, "object")
    for pool in ("se_predictions", "seq_predictions", "clip_predictions"):
        for e in spec.get(pool, []):
            for t, _p in e.get("tags", []):
                trole(t, "prediction")
    for t in spec["roots"]["annotation_project"].get("annotation_tags", []):
        trole(t, "project-tags")
    for t in spec["roots"]["evaluation_set"].get("evaluation_tags", []):
        trole(t, "evaluation-tags")
    for t, rs in tag_roles.items():
        if len(rs) == 1 and "object" not in rs:
            out.add(f"shape:tag-only-in-{next(iter(rs))}")
    depth = {}
    for i, q in enumerate(spec.get("sequences", [])):
        depth[i] = 0 if q.get("parent") is None else depth[q["parent"]] + 1
        if depth[i] >= 1:
            out.add("shape:sequence-with-parent")
        if depth[i] >= 2:
            out.add("shape:sequence-parent-depth>=2")
        if q.get("parent") is not None and not spec["sequences"][q["parent"]].get("sound_events"):
            out.add("shape:parent-sequence-without-sound-events")
    for a in spec.get("clip_annotations", []):
        rec = spec["clips"][a["clip"]]["recording"]
        for j in a.get("sound_events", []):
            se = spec["sound_events"][spec["se_annotations"][j]["sound_event"]]
            if se["recording"] != rec:
                out.add("shape:sound-event-of-another-recording")
    counts = {}
    for a in spec.get("clip_annotations", []):
        for j in a.get("sound_events", []):
            counts[j] = counts.get(j, 0) + 1
    if any(c > 1 for c in counts.values()):
        out.add("shape:annotation-shared-by-two-parents")
    se_users = {}
    for pool, key in (("se_annotations", "sound_event"),
                      ("se_predictions", "sound_event")):
        for e in spec.get(pool, []):
            se_users.setdefault(e[key], set()).add(pool)
    for q in spec.get("sequences", []):
        for j in q.get("sound_events", []):
            se_users.setdefault(j, set()).add("sequence")
    if any(len(v) >= 2 for v in se_users.values()):
        out.add("shape:sound-event-shared-annotation/prediction/sequence")
    ann_ids = {a["uuid"] for a in spec.get("se_annotations", [])}
    if any(p["uuid"] in ann_ids for p in spec.get("se_predictions", [])):
        out.add("shape:prediction-and-annotation-share-an-identifier")
    for s_ in spec.get("sound_events", []):
        g = s_.get("geometry")
        out.add(f"shape:geometry-{g['type'] if g else 'none'}")
    for r in spec.get("recordings", []):
        te = r.get("time_expansion")
        if te is not None and te < 1:
            out.add("shape:time-expansion<1")
        if te is not None and te > 1:
            out.add("shape:time-expansion>1")
    for pool, field in REPEATABLE:
        for e in spec.get(pool, []):
            items = e.get(field) or []
            if len(items) != len(set(items)):
                out.add("shape:same-object-twice-in-a-reference-list")
    return sorted(out)
