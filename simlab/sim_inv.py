"""Simulated world for C04: relational invariants vs. stored state.

The AOEF-loading construction path is fed by stored state, and stored state
can be anything. A node saves a valid evaluation / annotation project; the
scheduler then injects *storage faults* into the stored document (lost,
duplicated, misdirected records and references, corrupted numbers, spliced
lists from another document, flipped / truncated bytes) and some node loads
it. Oracles:

1. soundness (any fault): if ``load`` returns, the reference predicate holds
   on the returned object graph;
2. completeness: if the stored document is closed and satisfies the predicate
   and no byte-level fault touched it (validity-preserving faults: boundary numbers, start == end, consistent
   deletions, all-unmatched patterns, reorderings), ``load`` must succeed;
3. four-way agreement: an arrangement with an unambiguous image is built
   through constructor / dict validation / JSON validation / AOEF loading of
   an independently rendered document, and every verdict must equal the
   reference predicate's.
"""

from __future__ import annotations

import copy
import json
import math
import os

from . import aoefdoc, arrangement, render, specs
from .canontools import canon_diff
from .core import HarnessError, jdump, sha
from .nodes import NodeCrashed
from .sim_aoef import AoefSim, FILES, _brief

SCORE_VALUES_VALID = [0.0, 1.0, -0.0, 0.5, 5e-324, math.nextafter(1.0, 0.0),
                      0, 1]  # whole numbers too: JSON "1", Python int
SCORE_VALUES_INVALID = [
    math.nextafter(0.0, -1.0),
    math.nextafter(1.0, 2.0),
    -1.0,
    2.0,
    1e308,
    -1e-9,
    1.0000001,
    -1,
    2,
    # not in [0,1] either (a hand-written comparison lets NaN through)
    math.nan,
    math.inf,
    -math.inf,
]

# (list, field, kind) of number fields in a stored document
NUMBER_FIELDS = [
    ("matches", "affinity", "score"),
    ("matches", "score", "score"),
    ("clip_evaluations", "score", "score"),
    ("sound_event_predictions", "score", "score"),
    ("sequence_predictions", "score", "score"),
    ("sound_event_predictions", "tags", "ptag"),
    ("sequence_predictions", "tags", "ptag"),
    ("clip_predictions", "tags", "ptag"),
]

REF_LIST_FIELDS = [
    ("clip_evaluations", "matches", "matches"),
    ("clip_annotations", "sound_events", "sound_event_annotations"),
    ("clip_predictions", "sound_events", "sound_event_predictions"),
    ("clip_annotations", "sequences", "sequence_annotations"),
    ("clip_predictions", "sequences", "sequence_predictions"),
    ("sequences", "sound_events", "sound_events"),
]
REF_SCALAR_FIELDS = [
    ("clip_evaluations", "annotations", "clip_annotations"),
    ("clip_evaluations", "predictions", "clip_predictions"),
    ("clip_annotations", "clip", "clips"),
    ("clip_predictions", "clip", "clips"),
    ("matches", "source", "sound_event_predictions"),
    ("matches", "target", "sound_event_annotations"),
    ("tasks", "clip", "clips"),
    ("clips", "recording", "recordings"),
    ("sound_event_annotations", "sound_event", "sound_events"),
    ("sound_event_predictions", "sound_event", "sound_events"),
]
RECORD_LISTS = [
    "matches",
    "clip_evaluations",
    "clip_annotations",
    "clip_predictions",
    "sound_event_annotations",
    "sound_event_predictions",
    "clips",
    "tasks",
    "recordings",
    "sound_events",
    "tags",
    "users",
    "sequences",
]


# reference fields the five conditions of C04 speak about; a fault on any other
# reference (a sequence's members, a clip's recording, an annotation's sound
# event) changes content that C04 says nothing about, and a schema rule of its
# own may rightly refuse the result
# the classes whose construction the statement speaks about
C04_CLASSES = {
    "ClipEvaluation", "Match", "AnnotationProject", "Clip", "PredictedTag",
    "SoundEventPrediction", "SequencePrediction",
}
# ... and the fields of those classes it speaks about ("" = a validator of the
# model as a whole); a refusal that names only other fields (a minimum length
# of a project's name) is not its business
C04_FIELDS = {
    "", "start_time", "end_time", "source", "target", "affinity", "score",
    "annotations", "predictions", "matches", "clip_annotations", "tasks",
    "tags", "sound_events", "clip",
}


def names_c04(reply) -> bool:
    """Did a class the statement names refuse, for a field it speaks about?"""
    if reply.get("title") not in C04_CLASSES:
        return False
    locs = reply.get("locs")
    return locs is None or any(loc in C04_FIELDS for loc in locs)


C04_SITES = {
    "clip_evaluations.matches", "clip_evaluations.annotations",
    "clip_evaluations.predictions", "clip_annotations.sound_events",
    "clip_predictions.sound_events", "clip_annotations.clip",
    "clip_predictions.clip", "matches.source", "matches.target", "tasks.clip",
}


def _pick(seq, n):
    return seq[n % len(seq)] if seq else None


def _new_uuid(n: int) -> str:
    return "fa17fa17-0000-4000-8000-%012x" % (n & 0xFFFFFFFFFFFF)


# ------------------------------------------------------- document faults


def apply_doc_fault(doc, f, other_doc=None):
    """Apply one record-level storage fault in place. Returns True if it
    changed something. All indices are taken modulo the current lengths so a
    fault stays meaningful when the minimiser removes earlier operations."""
    data = doc["data"]
    kind = f["kind"]
    a, b, c = f.get("a", 0), f.get("b", 0), f.get("c", 0)

    if kind == "lost_record":
        names = [n for n in RECORD_LISTS if data.get(n)]
        name = _pick(names, a)
        if not name:
            return False
        del data[name][b % len(data[name])]
        return True

    if kind == "lost_ref":
        cands = [
            (lst, fld)
            for lst, fld, _ in REF_LIST_FIELDS
            if any(rec.get(fld) for rec in data.get(lst) or [])
        ]
        pick = _pick(cands, a)
        if not pick:
            return False
        recs = [r for r in data[pick[0]] if r.get(pick[1])]
        rec = _pick(recs, b)
        del rec[pick[1]][c % len(rec[pick[1]])]
        return f"{pick[0]}.{pick[1]}"

    if kind == "dup_ref":
        cands = [
            (lst, fld)
            for lst, fld, _ in REF_LIST_FIELDS
            if any(rec.get(fld) for rec in data.get(lst) or [])
        ]
        pick = _pick(cands, a)
        if not pick:
            return False
        recs = [r for r in data[pick[0]] if r.get(pick[1])]
        rec = _pick(recs, b)
        rec[pick[1]].append(rec[pick[1]][c % len(rec[pick[1]])])
        return f"{pick[0]}.{pick[1]}"

    if kind == "dup_record":
        # the same record again under a new id, referenced from its parent
        if not data.get("matches") or not data.get("clip_evaluations"):
            return False
        owners = [e for e in data["clip_evaluations"] if e.get("matches")]
        owner = _pick(owners, a)
        if not owner:
            return False
        by_id = {m["uuid"]: m for m in data["matches"]}
        src = by_id.get(owner["matches"][b % len(owner["matches"])])
        if src is None:
            return False
        clone = dict(src, uuid=_new_uuid(c))
        data["matches"].append(clone)
        owner["matches"].append(clone["uuid"])
        return True

    if kind == "misdirect":
        cands = [
            t
            for t in REF_SCALAR_FIELDS
            if any(r.get(t[1]) is not None for r in data.get(t[0]) or [])
            and len(data.get(t[2]) or []) >= 2
        ]
        pick = _pick(cands, a)
        if not pick:
            return False
        recs = [r for r in data[pick[0]] if r.get(pick[1]) is not None]
        rec = _pick(recs, b)
        others = [
            t["uuid"] for t in data[pick[2]] if t["uuid"] != rec[pick[1]]
        ]
        if not others:
            return False
        rec[pick[1]] = _pick(others, c)
        return f"{pick[0]}.{pick[1]}"

    if kind == "misdirect_member":
        cands = [
            t
            for t in REF_LIST_FIELDS
            if any(r.get(t[1]) for r in data.get(t[0]) or [])
            and len(data.get(t[2]) or []) >= 2
        ]
        pick = _pick(cands, a)
        if not pick:
            return False
        recs = [r for r in data[pick[0]] if r.get(pick[1])]
        rec = _pick(recs, b)
        pos = c % len(rec[pick[1]])
        others = [
            t["uuid"] for t in data[pick[2]] if t["uuid"] != rec[pick[1]][pos]
        ]
        if not others:
            return False
        rec[pick[1]][pos] = _pick(others, c // 7)
        return f"{pick[0]}.{pick[1]}"

    if kind == "null_side":
        rec = _pick(data.get("matches") or [], a)
        if not rec:
            return False
        which = b % 3
        if which in (0, 2):
            rec.pop("source", None)
        if which in (1, 2):
            rec.pop("target", None)
        return True

    if kind == "number":
        cands = [
            t for t in NUMBER_FIELDS if _number_sites(data, t)
        ]
        pick = _pick(cands, a)
        if not pick:
            return False
        sites = _number_sites(data, pick)
        rec, pos = _pick(sites, b)
        if pick[2] == "ptag":
            rec[pick[1]][pos][1] = f["value"]
        else:
            rec[pick[1]] = f["value"]
        return True

    if kind == "clip_times":
        rec = _pick(data.get("clips") or [], a)
        if not rec:
            return False
        mode = f.get("mode", "swap")
        if mode == "swap":
            rec["start_time"], rec["end_time"] = (
                rec["end_time"],
                rec["start_time"],
            )
        elif mode == "equal":
            rec["end_time"] = rec["start_time"]
        elif mode == "after":
            rec["start_time"] = math.nextafter(rec["end_time"], math.inf)
        elif mode == "ints":
            rec["start_time"], rec["end_time"] = [
                (5, 3), (1, 0), (2, 2), (0, 1), (0, 0), (3, 5)
            ][c % 6]
        return True

    if kind == "splice":
        if other_doc is None:
            return False
        names = [n for n in RECORD_LISTS if other_doc["data"].get(n)]
        name = _pick(names, a)
        if not name:
            return False
        data[name] = copy.deepcopy(other_doc["data"][name])
        return True

    # ---- validity-preserving

    if kind == "consistent_delete":
        owners = [e for e in data.get("clip_evaluations") or [] if e.get("matches")]
        owner = _pick(owners, a)
        if not owner:
            return False
        mid = owner["matches"].pop(b % len(owner["matches"]))
        match = next((m for m in data["matches"] if m["uuid"] == mid), None)
        if match is None:
            return True
        for lst, key, side in (
            ("clip_annotations", "annotations", "target"),
            ("clip_predictions", "predictions", "source"),
        ):
            ident = match.get(side)
            if ident is None:
                continue
            parent = next(
                (r for r in data.get(lst) or [] if r["uuid"] == owner[key]),
                None,
            )
            if parent and ident in (parent.get("sound_events") or []):
                parent["sound_events"] = [
                    x for x in parent["sound_events"] if x != ident
                ]
        return True

    if kind == "split_match":
        owners = [e for e in data.get("clip_evaluations") or [] if e.get("matches")]
        owner = _pick(owners, a)
        if not owner:
            return False
        by_id = {m["uuid"]: m for m in data.get("matches") or []}
        two_sided = [
            by_id[i]
            for i in owner["matches"]
            if i in by_id
            and by_id[i].get("source") is not None
            and by_id[i].get("target") is not None
        ]
        match = _pick(two_sided, b)
        if not match:
            return False
        clone = dict(match, uuid=_new_uuid(c))
        clone.pop("source")
        match.pop("target")
        data["matches"].append(clone)
        owner["matches"].append(clone["uuid"])
        return True

    if kind == "reorder":
        names = [n for n in ("matches", "clip_evaluations", "clip_annotations",
                             "clip_predictions", "tasks", "clips")
                 if len(data.get(n) or []) >= 2]
        name = _pick(names, a)
        if name:
            lst = data[name]
            k = b % len(lst)
            data[name] = lst[k:] + lst[:k][::-1]
        owners = [e for e in data.get("clip_evaluations") or []
                  if len(e.get("matches") or []) >= 2]
        owner = _pick(owners, c)
        if owner:
            owner["matches"] = owner["matches"][::-1]
        return bool(name or owner)

    if kind == "drop_unneeded_task":
        tasks = data.get("tasks") or []
        annotated = {x["clip"] for x in data.get("clip_annotations") or []}
        free = [t for t in tasks if t["clip"] not in annotated]
        doubled = [
            t for t in tasks
            if sum(1 for u in tasks if u["clip"] == t["clip"]) > 1
        ]
        victim = _pick(free + doubled, a)
        if not victim:
            return False
        tasks.remove(victim)
        return True

    if kind == "boundary_number":
        return apply_doc_fault(
            doc, dict(f, kind="number", value=_pick(SCORE_VALUES_VALID, c))
        )

    raise HarnessError(f"unknown document fault {kind}")


def _number_sites(data, t):
    lst, fld, how = t
    sites = []
    for rec in data.get(lst) or []:
        if how == "ptag":
            for pos in range(len(rec.get(fld) or [])):
                sites.append((rec, pos))
        elif rec.get(fld) is not None:
            sites.append((rec, None))
    return sites


def doc_verdict(doc, reachable_only=True):
    """(closed, broken): closed under reference (as C02 defines it) and the
    list of broken C04 invariants of the stored arrangement."""
    try:
        analysis = aoefdoc.analyse(doc)
    except (KeyError, TypeError, AttributeError):
        return False, [("unreadable", "doc")]
    if analysis["problems"]:
        return False, []
    try:
        return True, arrangement.check(
            arrangement.from_doc(doc, reachable_only)
        )
    except (KeyError, TypeError):
        return False, [("unreadable", "doc")]


# ---------------------------------------------------------------- the sim


class InvSim(AoefSim):
    flavour = "aoef"

    def __init__(self, *args, **kwargs):
        super().__init__(*args, **kwargs)
        self.docs = {}  # path -> {"pristine": bool, "faults": [kinds]}
        self.checked_verdicts = 0
        self.max_ce = 0

    def checked(self):
        return self.checked_verdicts

    def nontrivial(self, prop):
        return (
            self.probes.get("C04:faulted-load-checked>=2", 0) >= 1
            or self.probes.get("C04:arrangement-checked", 0) >= 1
        )

    def _apply(self, op):
        kind = op["op"]
        if kind == "store":
            self.i += 1
            self.do_store(op)
        elif kind == "corrupt":
            self.i += 1
            self.do_corrupt(op)
        elif kind == "loadcheck":
            self.i += 1
            self.do_loadcheck(op)
        elif kind == "arrange":
            self.i += 1
            self.do_arrange(op)
        else:
            super()._apply(op)

    # -- store a valid document through the real save

    def do_store(self, op):
        spec = self.worlds.get(op["k"])
        if spec is None:
            self.record(op, "skipped")
            return
        n = op["node"]
        node = self.node(n)
        key = specs.spec_key(spec)
        src = {"world": key, "root": op["root"]}
        if key not in self.node_worlds[n]:
            src["spec"] = spec
        described = node.call("describe", src=src)
        if described["outcome"] != "value":
            self.world_rejected(op, spec, described)
            return
        self.node_worlds[n].add(key)
        src.pop("spec", None)
        p = op["path"]
        fault = op.get("fault")
        try:
            reply = node.call(
                "save", src=src, path=self.abspath(p), _env=self.env(fault)
            )
        except NodeCrashed:
            if not fault:
                raise HarnessError("node died during a fault-free save") from None
            self.restart(n)
            reply = {"outcome": "crashed", "_fault_fired": True}
        if reply.get("_fault_fired") and fault:
            self.faults_fired.hit(fault["kind"])
        if reply["outcome"] != "ack":
            if not fault:
                raise HarnessError(f"fault-free save failed: {reply}")
            # whatever is at the path now is not a document we vouch for
            self.docs.pop(p, None)
            self.record(op, reply["outcome"], fired=True)
            self.trace.append(("store", described["type"], fault["kind"]))
            self.probes.hit("store:interrupted-by-fault")
            return
        raw = self.read_bytes(p)
        self.docs[p] = {"faults": [], "type": described["type"]}
        self.record(op, "ack", doc=sha(raw))
        self.trace.append(("store", described["type"]))
        self.probes.hit(f"store:{op['root']}")

    def do_copy(self, op):
        """Another program puts a complete document in the place of whatever
        an interrupted save left there."""
        src, dst = op["src"] % len(FILES), op["dst"] % len(FILES)
        raw = self.read_bytes(src)
        if raw is None or src == dst or src not in self.docs:
            return self.record(op, "skipped")
        target = self.abspath(dst)
        os.makedirs(os.path.dirname(target), exist_ok=True)
        self._move_companions(self.abspath(src), target, False)
        with open(target, "wb") as fp:
            fp.write(raw)
        self.docs[dst] = {
            "faults": list(self.docs[src]["faults"]),
            "type": self.docs[src]["type"],
            "foreign": self.docs[src].get("foreign", False),
        }
        self.record(op, "ok", doc=sha(raw))
        self.trace.append(("copy",))
        self.probes.hit("file:copy-by-another-tool")

    def world_rejected(self, op, spec, reply):
        """A world the reference predicate calls valid could not be built."""
        broken = arrangement.spec_is_valid(spec)
        if broken:
            raise HarnessError(f"generator produced an invalid world: {broken[:3]}")
        if not names_c04(reply):
            # refused by a class the statement does not speak about (a
            # stricter Recording, a new rule on sequences): not an input
            self.record(op, f"construction-refused:{reply.get('title')}")
            self.trace.append(("world-refused-elsewhere",))
            self.probes.hit("world:construction-refused")
            return
        self.record(op, f"raised:{reply.get('exc')}")
        self.trace.append(("world-rejected", reply.get("exc")))
        self.violate(
            "C04",
            f"C04:rejected-valid:construction:{reply.get('exc')}",
            f"a world that satisfies every invariant (reference predicate) "
            f"could not be constructed: {reply.get('msg')}",
        )

    # -- storage faults between save and load

    def do_corrupt(self, op):
        p = op["path"]
        state = self.docs.get(p)
        raw = self.read_bytes(p)
        f = op["fault"]
        if state is None or raw is None:
            self.record(op, "skipped")
            return
        if f["kind"] in ("truncate", "flip"):
            if f["kind"] == "truncate":
                raw = raw[: (len(raw) * f.get("permille", 500)) // 1000]
            elif raw:
                pos = (len(raw) * f.get("permille", 500)) // 1000 % len(raw)
                raw = raw[:pos] + bytes([raw[pos] ^ (1 << (f.get("a", 0) % 8))]) + raw[pos + 1 :]
            with open(self.abspath(p), "wb") as fp:
                fp.write(raw)
            state["faults"].append(f["kind"])
            self.faults_fired.hit(f"doc:{f['kind']}")
            self.record(op, "applied", doc=sha(raw))
            self.trace.append(("corrupt", f["kind"]))
            return
        try:
            doc = json.loads(raw.decode("utf-8-sig"))
            other = None
            if f["kind"] == "splice":
                other_raw = self.read_bytes(f.get("from", 0))
                if other_raw is not None and f.get("from", 0) % len(FILES) != p % len(FILES):
                    other = json.loads(other_raw.decode("utf-8-sig"))
            changed = apply_doc_fault(doc, f, other)
        except (UnicodeDecodeError, ValueError, KeyError, TypeError, AttributeError, IndexError):
            self.record(op, "skipped-unparseable")
            return
        if not changed:
            self.record(op, "not-applicable")
            return
        # same layout as the writer's (compact separators), so a fault that
        # swaps one identifier for another leaves the file size unchanged
        text = json.dumps(doc, ensure_ascii=False, separators=(",", ":"))
        with open(self.abspath(p), "w", encoding="utf-8") as fp:
            fp.write(text)
        if len(text.encode("utf-8")) == len(raw):
            self.probes.hit("C04:fault-kept-file-size")
        state["faults"].append(f["kind"])
        if isinstance(changed, str) and changed not in C04_SITES:
            state["foreign"] = True
            self.probes.hit("C04:fault-on-a-reference-outside-the-statement")
        self.faults_fired.hit(f"doc:{f['kind']}")
        self.record(op, "applied", doc=sha(text))
        self.trace.append(("corrupt", f["kind"]))

    # -- load and judge

    def do_loadcheck(self, op):
        p = op["path"]
        state = self.docs.get(p)
        raw = self.read_bytes(p)
        if state is None or raw is None:
            self.record(op, "skipped")
            return
        node = self.node(op["node"])
        try:
            reply = node.call(
                "load", path=self.abspath(p), handle=op["h"],
                _env=self.env(None),
            )
        except NodeCrashed:
            raise HarnessError("node died during load") from None
        outcome = reply["outcome"]
        oclass = outcome if outcome != "raised" else f"raised:{reply['exc']}"
        try:
            doc = json.loads(raw.decode("utf-8-sig"))
            closed, broken = doc_verdict(doc)
            broken_anywhere = doc_verdict(doc, reachable_only=False)[1]
            n_units = max(
                len(doc["data"].get(name) or [])
                for name in ("clip_evaluations", "tasks", "clip_predictions",
                             "clip_annotations")
            )
        except (UnicodeDecodeError, ValueError, KeyError, TypeError, AttributeError):
            doc, closed, broken, n_units = None, False, [("unparseable", "doc")], 0
            broken_anywhere = broken
        self.record(
            op, oclass, closed=closed, broken=[b[0] for b in broken],
            faults=list(state["faults"]),
            obj=sha(jdump(reply["canon"])) if outcome == "value" else None,
        )
        self.trace.append(
            ("loadcheck", tuple(state["faults"]), oclass, closed, bool(broken))
        )
        self.checked_verdicts += 1
        if state["faults"] and state.get("loaded_ok_before_fault"):
            self.probes.hit("C04:faulted-load-after-earlier-successful-load")
        if not state["faults"] and outcome == "value":
            state["loaded_ok_before_fault"] = True
        if state["faults"]:
            self.probes.hit("C04:faulted-load-checked")
            if n_units >= 2:
                self.probes.hit("C04:faulted-load-checked>=2")
        else:
            self.probes.hit("C04:pristine-load-checked")
        self.probes.hit(f"C04:load-{'accepted' if outcome == 'value' else 'rejected'}")
        last = state["faults"][-1] if state["faults"] else "none"
        if outcome == "value":
            # 1. soundness: what exists satisfies the invariants
            got = arrangement.check(arrangement.from_canon(reply["canon"]))
            if got:
                inv, where = got[0]
                self.violate(
                    "C04",
                    f"C04:bypass:{inv}:{where}",
                    f"load accepted a stored document (faults {state['faults']}) "
                    f"and returned an object graph that breaks {got[:3]}",
                )
            if closed and broken and not (
                {"flip", "truncate"} & set(state["faults"])
            ):
                # every reference of the stored document resolves, so the
                # loader has exactly this arrangement in front of it: the
                # "only if" direction at the level of the document
                inv, where = broken[0]
                self.violate(
                    "C04",
                    f"C04:accepted-invalid:{inv}:{where}",
                    f"stored document is closed under reference and breaks "
                    f"{broken[:3]} (faults {state['faults']}), yet load "
                    f"returned an object",
                )
        else:
            # 2. completeness: a closed, valid stored arrangement must load
            # (not claimed once a fault touched a reference the statement
            # does not speak about)
            # ... and, once faults touched the document, only when one of
            # the classes the statement names refused it: a stored document
            # that was tampered with may be turned down for reasons of its
            # own (an integrity hash, a strict schema, a uniqueness rule of
            # another class)
            named = not state["faults"] or names_c04(reply)
            if not named and closed and not broken_anywhere:
                self.probes.hit("C04:faulted-valid-document-refused-elsewhere")
            if named and closed and not broken_anywhere and not state.get("foreign") and not (
                {"flip", "truncate"} & set(state["faults"])
            ):
                self.violate(
                    "C04",
                    f"C04:rejected-valid:{last}",
                    f"stored document is closed and satisfies every invariant "
                    f"(faults {state['faults']}) but load raised "
                    f"{reply['exc']}: {reply.get('msg')}",
                )
        if closed and not broken and state["faults"]:
            self.probes.hit("C04:valid-after-fault-checked")

    # -- four construction paths

    def do_arrange(self, op):
        spec, target = op["spec"], op["target"]
        want_broken = arrangement.check(
            arrangement.from_spec_target(spec, target)
        )
        want = "reject" if want_broken else "accept"
        doc = render.render(
            spec, op["root"], created_on=self.now.isoformat(),
            extra=op.get("extra"),
        )
        path = os.path.join(self.run_dir, f"arr{self.i}.json")
        with open(path, "w", encoding="utf-8") as fp:
            json.dump(doc, fp, ensure_ascii=False)
        node = self.node(op["node"])
        reply = node.call(
            "arrange", spec=spec, target=target, doc_path=path,
            handle=op["h"], base_spec=op.get("base_spec"),
            _env=self.env(None),
        )
        if op.get("base_spec") is not None:
            self.probes.hit("C04:arrangement-reached-by-in-place-edit")
        if reply["outcome"] != "value":
            if reply.get("base") and op.get("base_spec") is not None:
                self.world_rejected(op, op["base_spec"], reply)
                return
            # everything below the target is valid by construction of the
            # operator; if the reference agrees, the code under test refused
            # a valid object
            others = [
                b for b in arrangement.spec_is_valid(spec)
                if not b[1].startswith(target["cls"])
            ]
            if not names_c04(reply):
                self.record(op, f"construction-refused:{reply.get('title')}")
                self.trace.append(("world-refused-elsewhere",))
                self.probes.hit("world:construction-refused")
                return
            if not others:
                self.record(op, f"raised:{reply.get('exc')}")
                self.violate(
                    "C04",
                    f"C04:rejected-valid:construction:{reply.get('exc')}",
                    f"objects below the arrangement's target, all valid by "
                    f"the reference predicate, could not be constructed: "
                    f"{reply.get('msg')}",
                )
                return
            raise HarnessError(f"arrangement substrate failed: {reply}")
        elsewhere = [
            k for k, v in reply["paths"].items()
            if v["verdict"] == "reject" and not names_c04(v)
        ]
        if elsewhere and want == "accept":
            # refused for a reason the statement does not speak about (the
            # minimum length of a project's name): not an input
            self.record(op, "refused-elsewhere:" + "+".join(sorted(elsewhere)))
            self.trace.append(("arrange-refused-elsewhere", op["operator"]))
            self.probes.hit("world:construction-refused")
            return
        verdicts = {k: v["verdict"] for k, v in reply["paths"].items()}
        self.record(op, jdump(verdicts), want=want,
                    broken=[b[0] for b in want_broken])
        self.trace.append(("arrange", op["operator"], target["cls"], want,
                           tuple(sorted(verdicts.items()))))
        self.checked_verdicts += 4
        self.probes.hit("C04:arrangement-checked")
        self.probes.hit(f"C04:arrange:{op['operator']}:{want}")
        self.probes.hit(f"C04:target:{target['cls']}")
        wrong = [k for k in ("ctor", "dict", "json", "aoef") if verdicts[k] != want]
        if wrong:
            how = "bypass" if want == "reject" else "rejected-valid"
            self.violate(
                "C04",
                f"C04:disagree:{'+'.join(wrong)}:{how}:{op['operator']}:{target['cls']}",
                f"operator {op['operator']} on {target}: reference says {want} "
                f"({want_broken[:2]}), paths say {verdicts} "
                f"({ {k: v.get('exc') for k, v in reply['paths'].items()} })",
            )
        # accepted objects must be the same object whatever the path
        canons = reply.get("canons", {})
        if len(canons) >= 2:
            names = sorted(canons)
            for other in names[1:]:
                diff = canon_diff(canons[names[0]], canons[other])
                if diff:
                    self.violate(
                        "C04",
                        f"C04:paths-build-different-objects:{target['cls']}",
                        f"{names[0]} and {other} accepted the arrangement "
                        f"but built different objects: {diff}",
                    )
        if want == "accept" and "aoef_canon" in reply:
            got = arrangement.check(arrangement.from_canon(reply["aoef_canon"]))
            if got:
                self.violate(
                    "C04", f"C04:bypass:{got[0][0]}:{got[0][1]}",
                    f"AOEF path built {got[:3]}",
                )


# -------------------------------------------------------- spec mutations


def _clone(spec):
    return copy.deepcopy(spec)


def _ces_with_matches(spec):
    return [i for i, e in enumerate(spec["clip_evaluations"]) if e.get("matches")]


def mutate(spec, rng, seed_tag):
    """Draw one arrangement operator. Returns dict(spec, target, operator,
    root, extra) or None when the world has nothing to operate on."""
    s = _clone(spec)
    ops = [
        "drop_match", "dup_match", "foreign_match", "one_side", "null_match",
        "mismatch_clip", "drop_annotation", "add_annotation",
        "split_match", "consistent_delete", "reorder", "dup_event_ref",
        "swap_event", "swap_event_and_match", "retarget_match",
        "extra_one_sided", "same_match_twice",
        "number", "clip_times", "task_drop", "task_orphan", "task_retarget",
        "identity",
    ]
    name = rng.choice(ops)
    # half of the time the annotation / prediction record keeps its identifier
    # and only its content changes ("same ids, new content": the live object
    # that was already validated once is modified in place on the node)
    inplace = rng.random() < 0.5
    ces = list(range(len(s["clip_evaluations"])))
    ces_m = _ces_with_matches(s)

    def ce_target(i):
        s["roots"]["evaluation"]["clip_evaluations"] = [i]
        out = {
            "spec": s, "operator": name, "root": "evaluation",
            "target": {"cls": "ClipEvaluation", "index": i},
        }
        if inplace:
            out["base_spec"] = spec
            out["operator"] = name + "@inplace"
        return out

    def replace_parent(e, side, pool, parent):
        """Install a modified clip annotation / prediction for evaluation e."""
        if inplace:
            s[pool][e[side]] = parent  # same uuid, same index
        else:
            parent["uuid"] = _new_uuid(rng.getrandbits(40))
            s[pool].append(parent)
            e[side] = len(s[pool]) - 1

    def new_match(src):
        m = dict(src, uuid=_new_uuid(rng.getrandbits(40)))
        s["matches"].append(m)
        return len(s["matches"]) - 1

    def edit_match(e, pos, m):
        """Install the changed match m at position pos of evaluation e: under
        a new identifier, or (in-place history) as the same match, edited."""
        if inplace:
            s["matches"][e["matches"][pos]] = m
        else:
            e["matches"][pos] = new_match(m)

    def match_target(j, operator):
        """The match alone is the target; it is stored inside a clip
        evaluation made for it (its events annotated / predicted, nothing
        else), so that every loader has to build it."""
        m = s["matches"][j]
        s["clip_annotations"].append({
            "uuid": _new_uuid(rng.getrandbits(40)), "clip": 0,
            "sound_events": [] if m.get("target") is None else [m["target"]],
        })
        s["clip_predictions"].append({
            "uuid": _new_uuid(rng.getrandbits(40)), "clip": 0,
            "sound_events": [] if m.get("source") is None else [m["source"]],
        })
        s["clip_evaluations"].append({
            "uuid": _new_uuid(rng.getrandbits(40)),
            "annotations": len(s["clip_annotations"]) - 1,
            "predictions": len(s["clip_predictions"]) - 1,
            "matches": [j],
        })
        s["roots"]["evaluation"]["clip_evaluations"] = [
            len(s["clip_evaluations"]) - 1
        ]
        return {
            "spec": s, "operator": operator, "root": "evaluation",
            "target": {"cls": "Match", "index": j},
        }

    if name == "identity" and ces:
        return ce_target(rng.choice(ces))
    if name == "drop_match" and ces_m:
        i = rng.choice(ces_m)
        e = s["clip_evaluations"][i]
        del e["matches"][rng.randrange(len(e["matches"]))]
        return ce_target(i)
    if name == "dup_match" and ces_m:
        i = rng.choice(ces_m)
        e = s["clip_evaluations"][i]
        j = new_match(s["matches"][rng.choice(e["matches"])])
        e["matches"].append(j)
        return ce_target(i)
    if name == "foreign_match" and ces and s["matches"]:
        i = rng.choice(ces)
        e = s["clip_evaluations"][i]
        foreign = [j for j in range(len(s["matches"])) if j not in e["matches"]]
        if not foreign:
            return None
        e["matches"].append(rng.choice(foreign))
        return ce_target(i)
    if name == "one_side" and ces_m:
        i = rng.choice(ces_m)
        e = s["clip_evaluations"][i]
        pos = rng.randrange(len(e["matches"]))
        src = s["matches"][e["matches"][pos]]
        side = rng.choice(["source", "target"])
        other = "target" if side == "source" else "source"
        if src.get(other) is None:
            return None
        m = dict(src)
        m[side] = None
        edit_match(e, pos, m)
        return ce_target(i)
    if name == "null_match" and s["matches"]:
        j = rng.randrange(len(s["matches"]))
        s["matches"][j]["source"] = None
        s["matches"][j]["target"] = None
        return match_target(j, name)
    if name == "mismatch_clip" and ces:
        i = rng.choice(ces)
        e = s["clip_evaluations"][i]
        clip = s["clip_predictions"][e["predictions"]]["clip"]
        if inplace and len(s["clips"]) >= 2:
            # the same (live) clip prediction, moved to another clip
            pred = dict(s["clip_predictions"][e["predictions"]])
            pred["clip"] = rng.choice(
                [j for j in range(len(s["clips"])) if j != clip]
            )
            s["clip_predictions"][e["predictions"]] = pred
            return ce_target(i)
        others = [
            j for j, p in enumerate(s["clip_predictions"]) if p["clip"] != clip
        ]
        if not others:
            return None
        e["predictions"] = rng.choice(others)
        return ce_target(i)
    if name == "drop_annotation" and ces:
        i = rng.choice(ces)
        e = s["clip_evaluations"][i]
        side = rng.choice(["annotations", "predictions"])
        pool = "clip_annotations" if side == "annotations" else "clip_predictions"
        parent = dict(s[pool][e[side]])
        if not parent.get("sound_events"):
            return None
        parent["sound_events"] = list(parent["sound_events"])
        del parent["sound_events"][rng.randrange(len(parent["sound_events"]))]
        replace_parent(e, side, pool, parent)
        return ce_target(i)
    if name == "add_annotation" and ces:
        i = rng.choice(ces)
        e = s["clip_evaluations"][i]
        side = rng.choice(["annotations", "predictions"])
        pool = "clip_annotations" if side == "annotations" else "clip_predictions"
        items = "se_annotations" if side == "annotations" else "se_predictions"
        parent = dict(s[pool][e[side]])
        have = set(parent.get("sound_events", []))
        free = [j for j in range(len(s[items])) if j not in have]
        if not free:
            return None
        parent["sound_events"] = list(parent.get("sound_events", [])) + [
            rng.choice(free)
        ]
        replace_parent(e, side, pool, parent)
        return ce_target(i)
    if name in ("swap_event", "swap_event_and_match") and ces:
        # replace one annotated / predicted sound event by another one: the
        # list keeps its length; with the old matches the arrangement is
        # invalid (one foreign, one missing), with the match redirected too
        # it is valid again
        i = rng.choice(ces)
        e = s["clip_evaluations"][i]
        side = rng.choice(["annotations", "predictions"])
        pool = "clip_annotations" if side == "annotations" else "clip_predictions"
        items = "se_annotations" if side == "annotations" else "se_predictions"
        mside = "target" if side == "annotations" else "source"
        parent = dict(s[pool][e[side]])
        have = list(parent.get("sound_events", []))
        free = [j for j in range(len(s[items])) if j not in have]
        if not have or not free:
            return None
        pos = rng.randrange(len(have))
        old, new = have[pos], rng.choice(free)
        have[pos] = new
        parent["sound_events"] = have
        replace_parent(e, side, pool, parent)
        if name == "swap_event_and_match":
            for k, j in enumerate(list(e["matches"])):
                if s["matches"][j].get(mside) == old:
                    m = dict(s["matches"][j])
                    m[mside] = new
                    edit_match(e, k, m)
        return ce_target(i)
    if name == "same_match_twice" and ces_m:
        # the very same match (same identifier) listed twice
        i = rng.choice(ces_m)
        e = s["clip_evaluations"][i]
        e["matches"].insert(rng.randrange(len(e["matches"]) + 1),
                            rng.choice(e["matches"]))
        return ce_target(i)
    if name == "retarget_match" and ces_m:
        # one match is pointed at the event another match already mentions:
        # one event twice, another never, the counts still add up
        i = rng.choice(ces_m)
        e = s["clip_evaluations"][i]
        side = rng.choice(["source", "target"])
        with_side = [
            pos for pos, j in enumerate(e["matches"])
            if s["matches"][j].get(side) is not None
        ]
        if len(with_side) < 2:
            return None
        a, b = rng.sample(with_side, 2)
        m = dict(s["matches"][e["matches"][a]])
        m[side] = s["matches"][e["matches"][b]][side]
        edit_match(e, a, m)
        return ce_target(i)
    if name == "extra_one_sided" and ces_m:
        # an event that is already matched is mentioned again by a
        # one-sided match
        i = rng.choice(ces_m)
        e = s["clip_evaluations"][i]
        src = s["matches"][rng.choice(e["matches"])]
        side = rng.choice(["source", "target"])
        if src.get(side) is None:
            return None
        other = "target" if side == "source" else "source"
        m = dict(src)
        m[other] = None
        e["matches"].append(new_match(m))
        return ce_target(i)
    if name == "split_match" and ces_m:
        i = rng.choice(ces_m)
        e = s["clip_evaluations"][i]
        two = [
            pos for pos, j in enumerate(e["matches"])
            if s["matches"][j].get("source") is not None
            and s["matches"][j].get("target") is not None
        ]
        if not two:
            return None
        pos = rng.choice(two)
        src = s["matches"][e["matches"][pos]]
        a = dict(src, target=None)
        b = dict(src, source=None)
        e["matches"][pos] = new_match(a)
        e["matches"].append(new_match(b))
        return ce_target(i)
    if name == "consistent_delete" and ces_m:
        i = rng.choice(ces_m)
        e = s["clip_evaluations"][i]
        j = e["matches"].pop(rng.randrange(len(e["matches"])))
        m = s["matches"][j]
        for side, key, pool in (
            ("target", "annotations", "clip_annotations"),
            ("source", "predictions", "clip_predictions"),
        ):
            if m.get(side) is None:
                continue
            parent = dict(s[pool][e[key]])
            parent["sound_events"] = [
                x for x in parent.get("sound_events", []) if x != m[side]
            ]
            replace_parent(e, key, pool, parent)
        return ce_target(i)
    if name == "reorder" and ces_m:
        i = rng.choice(ces_m)
        rng.shuffle(s["clip_evaluations"][i]["matches"])
        return ce_target(i)
    if name == "dup_event_ref" and ces:
        i = rng.choice(ces)
        e = s["clip_evaluations"][i]
        side = rng.choice(["annotations", "predictions"])
        pool = "clip_annotations" if side == "annotations" else "clip_predictions"
        parent = dict(s[pool][e[side]])
        if not parent.get("sound_events"):
            return None
        parent["sound_events"] = list(parent["sound_events"]) + [
            rng.choice(parent["sound_events"])
        ]
        replace_parent(e, side, pool, parent)
        return ce_target(i)
    if name == "number":
        value = rng.choice(SCORE_VALUES_VALID + SCORE_VALUES_INVALID)
        sites = []
        for j in range(len(s["matches"])):
            sites += [("Match", j, "affinity"), ("Match", j, "score")]
        for j in range(len(s["clip_evaluations"])):
            sites.append(("ClipEvaluation", j, "score"))
        for j in range(len(s["se_predictions"])):
            sites.append(("SoundEventPrediction", j, "score"))
            for pos in range(len(s["se_predictions"][j].get("tags", []))):
                sites.append(("PredictedTag", j, ("se_predictions", pos)))
        for j in range(len(s["seq_predictions"])):
            sites.append(("SequencePrediction", j, "score"))
            for pos in range(len(s["seq_predictions"][j].get("tags", []))):
                sites.append(("PredictedTag", j, ("seq_predictions", pos)))
        for j in range(len(s["clip_predictions"])):
            for pos in range(len(s["clip_predictions"][j].get("tags", []))):
                sites.append(("PredictedTag", j, ("clip_predictions", pos)))
        if not sites:
            return None
        cls, j, field = rng.choice(sites)
        if cls == "Match":
            s["matches"][j][field] = value
            return match_target(j, f"number:{cls}.{field}")
        if cls == "ClipEvaluation":
            s["clip_evaluations"][j]["score"] = value
            out = ce_target(j)
            out["operator"] = "number:ClipEvaluation.score"
            return out
        if cls in ("SoundEventPrediction", "SequencePrediction"):
            pool = "se_predictions" if cls == "SoundEventPrediction" else "seq_predictions"
            s[pool][j]["score"] = value
            key = "sound_events" if cls == "SoundEventPrediction" else "sequences"
            s["clip_predictions"].append(
                {"uuid": _new_uuid(rng.getrandbits(40)), "clip": 0, key: [j]}
            )
            kind = rng.choice(["prediction_set", "model_run"])
            s["roots"][kind]["clip_predictions"] = [
                len(s["clip_predictions"]) - 1
            ]
            return {
                "spec": s, "operator": f"number:{cls}.score",
                "root": kind,
                "target": {"cls": cls, "index": j},
            }
        pool, pos = field
        s[pool][j]["tags"][pos][1] = value
        if pool == "clip_predictions":
            members = [j]
        else:
            key = "sound_events" if pool == "se_predictions" else "sequences"
            s["clip_predictions"].append(
                {"uuid": _new_uuid(rng.getrandbits(40)), "clip": 0, key: [j]}
            )
            members = [len(s["clip_predictions"]) - 1]
        kind = rng.choice(["prediction_set", "model_run"])
        s["roots"][kind]["clip_predictions"] = members
        return {
            "spec": s, "operator": "number:PredictedTag.score",
            "root": kind,
            "target": {"cls": "PredictedTag", "index": j, "pool": pool, "pos": pos},
        }
    if name == "clip_times" and s["clips"]:
        j = rng.randrange(len(s["clips"]))
        c = s["clips"][j]
        mode = rng.choice(["swap", "equal", "after", "before", "ints"])
        if mode == "ints":
            # whole numbers, as a caller or a hand-written document has them
            c["start_time"], c["end_time"] = rng.choice(
                [(5, 3), (1, 0), (2, 2), (0, 0), (0, 1), (3, 5),
                 # before the start of the recording: nothing in the statement
                 # forbids it, the order is what counts
                 (-1, 2), (-3.5, -1.0), (-1, -3), (-0.0, 0.0)]
            )
        elif mode == "swap":
            c["start_time"], c["end_time"] = c["end_time"], c["start_time"]
        elif mode == "equal":
            c["end_time"] = c["start_time"]
        elif mode == "after":
            c["start_time"] = math.nextafter(c["end_time"], math.inf)
        else:
            c["start_time"] = math.nextafter(c["end_time"], -math.inf)
            if c["start_time"] < 0:
                c["start_time"] = c["end_time"]
        s["clip_annotations"].append(
            {"uuid": _new_uuid(rng.getrandbits(40)), "clip": j}
        )
        kind = rng.choice(["annotation_set", "evaluation_set"])
        s["roots"][kind]["clip_annotations"] = [
            len(s["clip_annotations"]) - 1
        ]
        return {
            "spec": s, "operator": f"clip_times:{mode}", "root": kind,
            "target": {"cls": "Clip", "index": j},
        }
    if name == "task_drop":
        root = s["roots"]["annotation_project"]
        if not root["tasks"]:
            return None
        del root["tasks"][rng.randrange(len(root["tasks"]))]
        return {
            "spec": s, "operator": name, "root": "annotation_project",
            "target": {"cls": "AnnotationProject"},
        }
    if name == "task_retarget" and len(s["clips"]) >= 2:
        # a task (same identifier; with a base world: the live object) is
        # moved to another clip -- an annotated clip may lose its only task
        root = s["roots"]["annotation_project"]
        if not root["tasks"]:
            return None
        j = rng.choice(root["tasks"])
        t = dict(s["tasks"][j])
        t["clip"] = rng.choice(
            [c for c in range(len(s["clips"])) if c != t["clip"]]
        )
        s["tasks"][j] = t
        out = {
            "spec": s, "operator": name, "root": "annotation_project",
            "target": {"cls": "AnnotationProject"},
        }
        if inplace:
            out["base_spec"] = spec
            out["operator"] = name + "@inplace"
        return out
    if name == "task_orphan":
        root = s["roots"]["annotation_project"]
        have = set(root["clip_annotations"])
        free = [j for j in range(len(s["clip_annotations"])) if j not in have]
        if not free:
            return None
        root["clip_annotations"].append(rng.choice(free))
        return {
            "spec": s, "operator": name, "root": "annotation_project",
            "target": {"cls": "AnnotationProject"},
        }
    return None


# -------------------------------------------------------------- generation

DOC_FAULTS_ANY = [
    "lost_record", "lost_ref", "dup_ref", "dup_record", "misdirect",
    "misdirect_member", "null_side", "number", "clip_times", "splice",
    "truncate", "flip",
]
DOC_FAULTS_VALID = [
    "consistent_delete", "split_match", "reorder", "drop_unneeded_task",
    "boundary_number", "clip_times_equal",
]


CRASHY = [
    "crash_after_bytes", "crash_after_write", "crash_before_open",
    "write_eio_after", "write_enospc", "crash_before_rename",
    "crash_after_rename", "rename_eio",
]


def draw_run_cfg(rng, focus, tier):
    thorough = tier == "thorough"
    spec_cfg = specs.draw_cfg(rng, "C04", tier)
    sizes = {
        "n_clips": rng.choice([2, 3, 4]),
        "n_sound_events": rng.choice([3, 5, 8]),
        "n_per_clip": rng.choice([1, 2, 4, 6]),
        "n_recordings": rng.choice([1, 2]),
        "n_tags": rng.choice([1, 3, 6]),
    }
    if not spec_cfg.get("large"):
        spec_cfg.update(sizes)
    spec_cfg["plain_recordings"] = True
    spec_cfg["tz_seconds"] = False  # (known finding F10 is C01's business)
    # repeated references only in the lists the statement speaks about
    spec_cfg["dup_fields"] = [["clip_annotations", "sound_events"],
                              ["clip_predictions", "sound_events"]]
    return {
        "focus": "C04",
        "n_nodes": rng.choice([1, 2, 3]),
        "max_ops": rng.choice([6, 10, 16] + ([28] if thorough else [])),
        "spec": spec_cfg,
        "store_roots": ["evaluation", "evaluation", "evaluation",
                        "annotation_project", "annotation_project"]
        + rng.sample(["model_run", "prediction_set", "evaluation_set",
                      "annotation_set"], rng.randint(0, 3)),
        "enabled_any": rng.sample(DOC_FAULTS_ANY, rng.randint(2, len(DOC_FAULTS_ANY))),
        "enabled_valid": rng.sample(DOC_FAULTS_VALID, rng.randint(1, len(DOC_FAULTS_VALID))),
        "weights": {
            "fault_load": rng.choice([1, 3]),
            "valid_fault": rng.choice([1, 3]),
            "arrange": rng.choice([1, 3, 6]),
            "pristine": 1,
            "splice": rng.choice([0, 1]),
            "restore": rng.choice([0, 1, 2]),
        },
    }


def draw_fault(rng, kinds):
    kind = rng.choice(kinds)
    f = {
        "kind": kind,
        "a": rng.randrange(1000),
        "b": rng.randrange(1000),
        "c": rng.randrange(1 << 30),
    }
    if kind == "number":
        f["value"] = rng.choice(SCORE_VALUES_INVALID + SCORE_VALUES_VALID)
    if kind == "clip_times":
        f["mode"] = rng.choice(["swap", "after", "equal", "ints"])
    if kind == "clip_times_equal":
        f["kind"] = "clip_times"
        f["mode"] = "equal"
    if kind in ("truncate", "flip"):
        f["permille"] = rng.choice([0, 1, 250, 500, 900, 999])
    if kind == "splice":
        f["from"] = rng.randrange(len(FILES))
    return f


def gen_ops(rng, cfg, seed_tag):
    ops = []
    worlds = {}
    next_h = [0]

    def world(k):
        spec = specs.gen_world(f"{seed_tag}:{k}:{len(ops)}", 0, cfg["spec"])
        worlds[k] = spec
        ops.append({"op": "world", "k": k, "spec": spec})
        return spec

    def h():
        next_h[0] += 1
        return next_h[0] - 1

    def node():
        return rng.randrange(cfg["n_nodes"])

    def store(k, p=None, fault=None, root=None):
        p = rng.randrange(len(FILES)) if p is None else p
        root = root or rng.choice(cfg.get("store_roots") or
                                  ["evaluation", "evaluation", "annotation_project"])
        ops.append({"op": "store", "k": k, "root": root, "path": p,
                    "node": node(), "fault": fault})
        return p

    names = list(cfg["weights"])
    weights = [cfg["weights"][n] for n in names]
    while len(ops) < cfg["max_ops"]:
        pat = rng.choices(names, weights)[0]
        k = rng.randrange(2)
        if k not in worlds or rng.random() < 0.3:
            world(k)
        if pat == "pristine":
            p = store(k)
            ops.append({"op": "loadcheck", "path": p, "node": node(), "h": h()})
        elif pat == "fault_load":
            p = store(k)
            if rng.random() < 0.5:
                # the document was read successfully before it went bad
                ops.append({"op": "loadcheck", "path": p, "node": node(), "h": h()})
            for _ in range(rng.choice([1, 1, 2, 3])):
                ops.append({"op": "corrupt", "path": p,
                            "fault": draw_fault(rng, cfg["enabled_any"])})
            ops.append({"op": "loadcheck", "path": p, "node": node(), "h": h()})
        elif pat == "valid_fault":
            p = store(k)
            if rng.random() < 0.3:
                ops.append({"op": "loadcheck", "path": p, "node": node(), "h": h()})
            for _ in range(rng.choice([1, 2, 3])):
                ops.append({"op": "corrupt", "path": p,
                            "fault": draw_fault(rng, cfg["enabled_valid"])})
            ops.append({"op": "loadcheck", "path": p, "node": node(), "h": h()})
        elif pat == "restore":
            # a save that overwrites a document is killed or fails; the file
            # is then put back by another program (copy of a good document),
            # goes bad, and is loaded
            p = store(k)
            if rng.random() < 0.5:
                ops.append({"op": "loadcheck", "path": p, "node": node(), "h": h()})
            store(k, p, fault={"kind": rng.choice(CRASHY), "permille": rng.choice([0, 500, 1000])})
            p2 = (p + 1 + rng.randrange(len(FILES) - 1)) % len(FILES)
            store(k, p2)
            ops.append({"op": "copy", "src": p2, "dst": p})
            for _ in range(rng.choice([1, 2])):
                ops.append({"op": "corrupt", "path": p,
                            "fault": draw_fault(rng, cfg["enabled_any"])})
            ops.append({"op": "loadcheck", "path": p, "node": node(), "h": h()})
        elif pat == "splice":
            p = store(k, 0)
            other = 1 - k
            if other not in worlds:
                world(other)
            store(other, 1)
            f = draw_fault(rng, ["splice"])
            f["from"] = 1
            ops.append({"op": "corrupt", "path": p, "fault": f})
            ops.append({"op": "loadcheck", "path": p, "node": node(), "h": h()})
        elif pat == "arrange":
            drawn = mutate(worlds[k], rng, seed_tag)
            if drawn is None:
                continue
            if "base_spec" not in drawn and rng.random() < 0.4:
                # the valid world was built and validated in this process
                # before (same identifiers as the arrangement)
                drawn["base_spec"] = worlds[k]
            ops.append({"op": "arrange", "node": node(), "h": h(), **drawn})
        if rng.random() < 0.05:
            ops.append({"op": "restart", "node": node()})
    return ops


def brief(op):
    return _brief(op)


def prune_candidates(spec):
    # arrangement specs are index-coupled to their target; only value pruning
    return specs._value_prune(spec)


SIM = InvSim
SIMPLIFY = {}
NONTRIVIAL_RULE = {
    "C04": "run with >=1 faulted stored document (>=2 clip evaluations or "
    ">=2 tasks) whose load verdict was checked against the reference "
    "predicate, or >=1 arrangement whose four construction-path verdicts were "
    "compared with the reference predicate; distinct = distinct abstract "
    "trace (sequence of (operation, fault kinds / operator, target class, "
    "load outcome class, closed?, predicate verdict))",
}
STATES_MEASURE = (
    "distinct abstract model states after an operation (per stored file: "
    "status, collection type) — the richer measure for this property is the "
    "number of distinct abstract traces"
)
REAL_VS_STUB = {
    "real": [
        "soundevent data classes and validators, model_validate, "
        "model_validate_json, io.save, io.load (AOEF adapters)",
        "pydantic, json, tmpfs as the disk, node processes forked from a "
        "pristine template",
    ],
    "stub": [
        "storage faults: the scheduler rewrites the stored document between "
        "save and load (record-level operators on the JSON tree, byte flips, "
        "truncation, splice from another stored document)",
        "arrangement documents for the four-way comparison are written by the "
        "harness's independent AOEF renderer (simlab/render.py), because "
        "soundevent's own save cannot write what it cannot construct",
        "simulated clock / uuid4 in the AOEF modules",
    ],
}
ASSUMPTIONS = [
    "sampling, not proof",
    "reference predicate in simlab/arrangement.py encodes the five conditions "
    "of the statement; Evaluation.score is outside the anchored classes and "
    "not checked",
    "numeric strings and non-finite numbers are not generated (the "
    "quantifier speaks of numeric values; AOEF stores floats)",
    "completeness is claimed only for stored documents that are closed under "
    "reference and satisfy every invariant",
]
SEAM_PROBES = {"C04": ["store:interrupted-by-fault",
                       "C04:arrangement-reached-by-in-place-edit"]}
CORE_PROBES = {
    "C04": [
        "C04:faulted-load-checked>=2",
        "C04:valid-after-fault-checked",
        "C04:pristine-load-checked",
        "C04:faulted-load-after-earlier-successful-load",
        "C04:fault-kept-file-size",
        "C04:load-accepted",
        "C04:load-rejected",
        "C04:arrangement-checked",
        "C04:arrangement-reached-by-in-place-edit",
        "C04:target:ClipEvaluation",
        "C04:target:Match",
        "C04:target:Clip",
        "C04:target:PredictedTag",
        "C04:target:SoundEventPrediction",
        "C04:target:SequencePrediction",
        "C04:target:AnnotationProject",
        "store:interrupted-by-fault",
        "file:copy-by-another-tool",
    ]
    + [f"doc:{k}" for k in DOC_FAULTS_ANY]
    + ["doc:consistent_delete", "doc:split_match", "doc:reorder",
       "doc:drop_unneeded_task"],
}
