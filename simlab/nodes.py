"""Template and node processes, and the worker-side handles to them.

worker ──fork──> template (imports soundevent from $VERIF_REPO/src, installs
the seam shims, never creates a soundevent object)
template ──accept+fork──> node (runs real soundevent code; single-threaded;
strictly request/response; the worker decides which node runs next)

A node shares nothing with another node but the files of the run directory.
Killing a node and forking a new one from the template is "restart": only
what is on the simulated disk survives.
"""

from __future__ import annotations

import os
import select
import signal
import socket
import sys
import traceback

from . import rpc
from .core import HarnessError

RPC_TIMEOUT_S = 60.0


# ------------------------------------------------------------ template side


def _leave(code: int) -> None:
    """End of a node: whatever it started ends with it."""
    try:
        if os.getpid() == os.getpgrp():
            signal.signal(signal.SIGTERM, signal.SIG_IGN)
            os.killpg(0, signal.SIGTERM)
    except OSError:
        pass
    os._exit(code)


def _template_main(lsock, ctl_r, repo_src: str, flavour: str) -> None:
    try:
        os.environ.setdefault("OMP_NUM_THREADS", "1")
        os.environ.setdefault("OPENBLAS_NUM_THREADS", "1")
        sys.dont_write_bytecode = True
        sys.path.insert(0, repo_src)
        import warnings  # noqa: PLC0415

        warnings.simplefilter("ignore")
        # identifiers that a default factory draws (`Field(default_factory=
        # uuid4)` captures the function when the class is defined) come from
        # the seeded stream too: the function is replaced in its home module
        # before the library is imported
        import uuid as _uuid  # noqa: PLC0415

        from . import shims as _shims  # noqa: PLC0415

        _uuid.uuid4 = _shims.sim_uuid4
        _shims.install_time()
        import importlib  # noqa: PLC0415
        import pkgutil  # noqa: PLC0415

        def import_library():
            """soundevent and every submodule of it: the seams are attached
            to module globals, and a module the library imports lazily, on
            first use, must already be there when they are."""
            soundevent = importlib.import_module("soundevent")
            importlib.import_module("soundevent.data")
            importlib.import_module("soundevent.io")
            if flavour == "audio":
                importlib.import_module("soundevent.audio")
            names = []
            try:
                # (walk_packages imports each package itself to descend)
                for info in pkgutil.walk_packages(
                    soundevent.__path__, "soundevent.",
                    onerror=lambda name: None,
                ):
                    names.append(info.name)
            except BaseException:  # noqa: BLE001  (a package that exits)
                pass
            for name in names:
                if flavour != "audio" and name.startswith(
                    ("soundevent.audio", "soundevent.plot")
                ) or name.rsplit(".", 1)[-1] == "__main__":
                    continue
                try:
                    importlib.import_module(name)
                except BaseException:  # noqa: BLE001  (optional dependency
                    pass               # missing, a script that exits on import)
            return soundevent

        # Twice. The first import brings in every third-party package the
        # library needs, untouched. The library's own modules are then
        # dropped and imported again while `datetime.datetime` in the datetime
        # module is the simulated class: a `Field(default_factory=
        # datetime.datetime.now)` captures its method when the class is
        # defined, and has to capture the simulated one.
        import_library()
        for name in [m for m in sys.modules
                     if m == "soundevent" or m.startswith("soundevent.")]:
            del sys.modules[name]
        import datetime as _datetime  # noqa: PLC0415

        real_datetime = _datetime.datetime
        _datetime.datetime = _shims.SimDateTime
        try:
            soundevent = import_library()
        finally:
            _datetime.datetime = real_datetime

        origin = os.path.dirname(os.path.abspath(soundevent.__file__))
        if not origin.startswith(os.path.abspath(repo_src)):
            raise RuntimeError(
                f"soundevent imported from {origin}, expected {repo_src}"
            )
        from . import nodeside, shims  # noqa: PLC0415

        installed = shims.install(aoef=True, audio=(flavour == "audio"))
        nodeside.TEMPLATE_INFO.update(
            origin=origin,
            installed={k: list(v) for k, v in installed.items()},
            flavour=flavour,
        )
        signal.signal(signal.SIGCHLD, signal.SIG_IGN)  # auto-reap nodes
    except BaseException:  # noqa: BLE001
        traceback.print_exc()
        os._exit(3)

    while True:
        ready, _, _ = select.select([lsock, ctl_r], [], [])
        if ctl_r in ready:
            os._exit(0)  # worker went away
        conn, _ = lsock.accept()
        pid = os.fork()
        if pid == 0:
            try:
                lsock.close()
                os.close(ctl_r)
                # a node is an ordinary process: children it starts are
                # waited for normally, and what the library prints or logs
                # goes nowhere (never into a pipe that could fill up)
                signal.signal(signal.SIGCHLD, signal.SIG_DFL)
                os.setpgrp()  # helper processes of the library die with it
                devnull = os.open(os.devnull, os.O_RDWR)
                for fd in (0, 1, 2):
                    os.dup2(devnull, fd)
                shims.new_flags()
                nodeside.serve(conn)
            except BaseException:  # noqa: BLE001
                traceback.print_exc()
                _leave(4)
            _leave(0)
        conn.close()


class Template:
    """Worker-side handle of the template process."""

    def __init__(self, repo_src: str, sock_path: str, flavour: str = "aoef"):
        self.repo_src = os.path.abspath(repo_src)
        self.sock_path = sock_path
        self.flavour = flavour
        self.pid = None
        self._ctl_w = None

    def start(self) -> None:
        if os.path.exists(self.sock_path):
            os.unlink(self.sock_path)
        lsock = socket.socket(socket.AF_UNIX, socket.SOCK_STREAM)
        lsock.bind(self.sock_path)
        lsock.listen(16)
        ctl_r, ctl_w = os.pipe()
        pid = os.fork()
        if pid == 0:
            os.close(ctl_w)
            _template_main(lsock, ctl_r, self.repo_src, self.flavour)
            os._exit(0)
        os.close(ctl_r)
        lsock.close()
        self.pid = pid
        self._ctl_w = ctl_w
        # first spawn doubles as the readiness / sanity check
        node = self.spawn("probe")
        self.info = node.call("info")
        node.close()

    def spawn(self, name: str) -> "Node":
        sock = socket.socket(socket.AF_UNIX, socket.SOCK_STREAM)
        sock.settimeout(RPC_TIMEOUT_S)
        try:
            sock.connect(self.sock_path)
        except OSError as err:
            raise HarnessError(f"template not reachable: {err}") from err
        return Node(name, sock)

    def stop(self) -> None:
        if self._ctl_w is not None:
            os.close(self._ctl_w)
            self._ctl_w = None
        if self.pid:
            try:
                os.waitpid(self.pid, 0)
            except ChildProcessError:
                pass
            self.pid = None
        if os.path.exists(self.sock_path):
            os.unlink(self.sock_path)


class NodeCrashed(Exception):
    """The node process died while serving a request."""


class Node:
    """Worker-side handle of one node process."""

    def __init__(self, name: str, sock):
        self.name = name
        self.sock = sock
        self.alive = True

    def call(self, op: str, **args):
        if not self.alive:
            raise HarnessError(f"node {self.name} is not alive")
        try:
            rpc.send(self.sock, {"op": op, "args": args})
            reply = rpc.recv(self.sock)
        except rpc.Closed:
            self.alive = False
            self.sock.close()
            raise NodeCrashed(self.name) from None
        except socket.timeout:
            self.alive = False
            self.sock.close()
            raise HarnessError(f"RPC time-out on node {self.name} op {op}")
        if "harness_error" in reply:
            raise HarnessError(
                f"node {self.name} op {op}: {reply['harness_error']}"
            )
        return reply["result"]

    def close(self) -> None:
        if self.alive:
            self.alive = False
            try:
                self.sock.close()  # EOF makes the node exit
            except OSError:
                pass
