"""Worker pool, single-run execution, minimisation, replay, evidence.

One integer decides everything: run ``r`` of property ``P`` under
``VERIF_SEED = s`` draws its swarm configuration and its complete operation
and fault list from ``derive_rng("run", P, s, r)``; executing that list is a
pure function of the list and the code under test. Workers only decide *which*
run indices they execute (w, w+N, w+2N, ...), never what a run does.
"""

from __future__ import annotations

import faulthandler
import json
import os
import shutil
import subprocess
import sys
import time
import traceback

from . import ENGINE_VERSION
from .core import (
    EXIT_HARNESS,
    EXIT_OK,
    EXIT_VIOLATION,
    Counter,
    HarnessError,
    Violation,
    derive_int,
    derive_rng,
    jdump,
    sha,
)
from .nodes import Template

VERIF_DIR = os.path.dirname(os.path.dirname(os.path.abspath(__file__)))
PYTHON = sys.executable


def repo_dir() -> str:
    return os.path.abspath(os.environ.get("VERIF_REPO", "/repo"))


def scratch_base() -> str:
    for base in ("/dev/shm", os.environ.get("TMPDIR") or "/var/tmp"):
        if os.path.isdir(base) and os.access(base, os.W_OK):
            return base
    return "/var/tmp"


# ----------------------------------------------------------- sim registry


def sim_kind(prop: str):
    """(flavour, SimClass, draw_run_cfg, gen_ops, nontrivial_rule_text)"""
    if prop in ("C01", "C02", "C18"):
        from . import sim_aoef as m  # noqa: PLC0415

        return m
    if prop == "C04":
        from . import sim_inv as m  # noqa: PLC0415

        return m
    if prop == "C15":
        from . import sim_audio as m  # noqa: PLC0415

        return m
    raise HarnessError(f"no simulation for property {prop}")


def make_sim(prop, template, run_dir, seed_tag):
    m = sim_kind(prop)
    return m.SIM(template, run_dir, [prop], seed_tag)


def generate(prop, seed, run_index, tier):
    m = sim_kind(prop)
    rng = derive_rng("run", prop, seed, run_index)
    seed_tag = derive_int("tag", prop, seed, run_index) % 1_000_000_007
    cfg = m.draw_run_cfg(rng, prop, tier)
    ops = m.gen_ops(rng, cfg, seed_tag)
    return cfg, ops, seed_tag


# --------------------------------------------------------------- one run


def execute(prop, template, run_dir, ops, seed_tag, known=None):
    """Run an operation list. Returns (sim, violation_or_None)."""
    sim = make_sim(prop, template, run_dir, seed_tag)
    sim.known = known or []
    violation = None
    try:
        for op in ops:
            sim.apply(op)
        sim.finish()
    except Violation as v:
        violation = v
    finally:
        sim.close()
    return sim, violation


# ----------------------------------------------------------- minimisation


def minimise(prop, template, base_dir, ops, seed_tag, target_cls, budget_s):
    """ddmin over operations, then spec pruning, same violation class."""
    from . import specs  # noqa: PLC0415

    deadline = time.monotonic() + budget_s
    counter = [0]

    def fails(candidate) -> bool:
        counter[0] += 1
        run_dir = os.path.join(base_dir, f"min{counter[0]}")
        try:
            _, v = execute(prop, template, run_dir, candidate, seed_tag)
        except Exception:  # noqa: BLE001
            # a candidate the simulator cannot even execute (dangling index
            # after pruning, substrate that no longer builds) is not a
            # smaller failing case
            return False
        return v is not None and v.cls == target_cls

    best = list(ops)
    # 1. drop everything after the failing operation (prefix search)
    lo, hi = 1, len(best)
    while lo < hi and time.monotonic() < deadline:
        mid = (lo + hi) // 2
        if fails(best[:mid]):
            hi = mid
        else:
            lo = mid + 1
    if fails(best[:hi]):
        best = best[:hi]
    # 2. ddmin
    n = 2
    while len(best) >= 2 and time.monotonic() < deadline:
        chunk = max(1, len(best) // n)
        reduced = False
        for start in range(0, len(best), chunk):
            candidate = best[:start] + best[start + chunk :]
            if candidate and fails(candidate):
                best = candidate
                n = max(n - 1, 2)
                reduced = True
                break
            if time.monotonic() > deadline:
                break
        if not reduced:
            if chunk == 1:
                break
            n = min(len(best), n * 2)
    # 3. simplify operation arguments
    simple = getattr(sim_kind(prop), "SIMPLIFY", {})
    for i, op in enumerate(list(best)):
        for key, value in simple.items():
            if key in op and op[key] != value and time.monotonic() < deadline:
                candidate = [dict(o) for o in best]
                candidate[i][key] = value
                if fails(candidate):
                    best = candidate
    # 4. spec pruning (greedy, repeated until no candidate helps)
    progress = True
    while progress and time.monotonic() < deadline:
        progress = False
        for i, op in enumerate(best):
            if "spec" not in op:
                continue
            pruner = getattr(sim_kind(prop), "prune_candidates", None)
            pruner = pruner or specs.prune_candidates
            for cand_spec in pruner(op["spec"]):
                if time.monotonic() > deadline:
                    break
                candidate = list(best)
                candidate[i] = dict(op, spec=cand_spec)
                if fails(candidate):
                    best = candidate
                    progress = True
                    break
            if progress:
                break
    return best, counter[0]


# ---------------------------------------------------------------- worker


def worker_main(args: dict) -> int:
    """Entry point of a worker interpreter (see check.py _worker)."""
    faulthandler.enable()
    prop = args["prop"]
    seed = args["seed"]
    tier = args["tier"]
    w, n_workers = args["worker"], args["workers"]
    deadline = time.monotonic() + args["budget_s"]
    faulthandler.dump_traceback_later(args["budget_s"] + 120, exit=True)
    base = args["scratch"]
    os.makedirs(base, exist_ok=True)
    m = sim_kind(prop)
    template = Template(
        os.path.join(repo_dir(), "src"),
        os.path.join(base, "template.sock"),
        flavour=m.SIM.flavour,
    )
    out = {
        "worker": w,
        "runs": 0,
        "ops": 0,
        "nontrivial": 0,
        "traces": [],
        "states": [],
        "probes": Counter(),
        "faults": Counter(),
        "samples": [],
        "full_sample": None,
        "violations": [],
        "known_hits": Counter(),
        "digests": {},
        "sim_seconds": 0.0,
        "checked": 0,
        "error": None,
        "template": None,
    }
    traces = set()
    states = set()
    known = load_known(prop)
    try:
        template.start()
        # the budget is search time: it starts when the template is up
        deadline = time.monotonic() + args["budget_s"]
        out["template"] = {
            k: template.info.get(k) for k in ("origin", "installed", "flavour")
        }
        from . import specs  # noqa: PLC0415

        specs.set_declared_fields(template.info.get("fields", {}))
        out["template"]["extra_fields_filled"] = {
            k: sorted(v) for k, v in specs.EXTRA_FIELDS.items()
        }
        out["template"]["declared_fields_not_exercised"] = list(
            specs.UNEXERCISED_FIELDS
        )
        out["python_optimize"] = sys.flags.optimize
        run_index = args.get("first_run", 0) + w
        last = args.get("max_runs")
        stop_flag = os.path.join(os.path.dirname(base), "STOP")
        while time.monotonic() < deadline:
            if last is not None and run_index >= args.get("first_run", 0) + last:
                break
            if os.path.exists(stop_flag):
                break
            cfg, ops, seed_tag = generate(prop, seed, run_index, tier)
            run_dir = os.path.join(base, f"r{run_index}")
            sim, violation = execute(
                prop, template, run_dir, ops, seed_tag, known
            )
            out["runs"] += 1
            out["ops"] += sim.i
            out["probes"].merge(sim.probes)
            out["faults"].merge(sim.faults_fired)
            out["known_hits"].merge(getattr(sim, "known_hits", {}))
            out["sim_seconds"] += sim.sim_seconds()
            out["checked"] += sim.checked()
            if args.get("keep_digests"):
                out["digests"][str(run_index)] = sim.log.digest()
            if sim.nontrivial(prop):
                out["nontrivial"] += 1
                traces.add(sha(jdump(sim.trace))[:12])
            states.update(sim.state_keys())
            if sim.nontrivial(prop):
                size = len(jdump(ops))
                if out["full_sample"] is None or size < out["full_sample"]["size"]:
                    if size < 120_000:
                        out["full_sample"] = {
                            "size": size,
                            "run": run_index,
                            "config": _brief_cfg(cfg),
                            "ops": ops,
                            "event_log": sim.log.entries,
                            "event_log_sha256": sim.log.digest(),
                        }
            if len(out["samples"]) < 2 and sim.nontrivial(prop):
                out["samples"].append(
                    {
                        "run": run_index,
                        "config": _brief_cfg(cfg),
                        "ops": [m.brief(op) for op in ops],
                        "event_log_sha256": sim.log.digest(),
                    }
                )
            if violation is not None:
                record = handle_violation(
                    prop, seed, run_index, tier, template, base, cfg, ops,
                    seed_tag, violation, args,
                )
                out["violations"].append(record)
                if args.get("stop_on_first", True):
                    with open(stop_flag, "w") as fp:
                        fp.write(str(run_index))
                if len(out["violations"]) >= 2:
                    break
            run_index += n_workers
    except HarnessError as err:
        out["error"] = f"HarnessError: {err}"
    except BaseException as err:  # noqa: BLE001
        out["error"] = f"{type(err).__name__}: {err}\n{traceback.format_exc()}"
    finally:
        try:
            template.stop()
        except Exception:  # noqa: BLE001
            pass
    out["traces"] = sorted(traces)
    out["states"] = sorted(states)
    with open(args["result"], "w", encoding="utf-8") as fp:
        json.dump(out, fp)
    faulthandler.cancel_dump_traceback_later()
    return 0


def handle_violation(
    prop, seed, run_index, tier, template, base, cfg, ops, seed_tag,
    violation, args,
):
    min_budget = args.get("minimise_s", 40)
    best, tried = minimise(
        prop,
        template,
        os.path.join(base, f"min-r{run_index}"),
        ops,
        seed_tag,
        violation.cls,
        min_budget,
    )
    # final confirmation run of the minimised list, for detail and digest
    sim, v = execute(
        prop, template, os.path.join(base, f"fin-r{run_index}"), best, seed_tag
    )
    if v is None or v.cls != violation.cls:
        best = ops
        sim, v = execute(
            prop, template, os.path.join(base, f"fin2-r{run_index}"), ops,
            seed_tag,
        )
    replay = {
        "property": prop,
        "verif_seed": seed,
        "run_index": run_index,
        "tier": tier,
        "seed_tag": seed_tag,
        "pythonhashseed": os.environ.get("PYTHONHASHSEED"),
        "python_optimize": sys.flags.optimize,
        "engine_version": ENGINE_VERSION,
        "config": _brief_cfg(cfg),
        "ops": best,
        "unminimised_ops": len(ops),
        "minimiser_executions": tried,
        "violation": (v or violation).as_dict(),
        "event_log_sha256": sim.log.digest(),
    }
    os.makedirs(os.path.join(VERIF_DIR, "replays"), exist_ok=True)
    path = os.path.join(
        VERIF_DIR, "replays",
        f"{prop}-{seed}-{run_index}-{os.environ.get('VERIF_CHECK_ID', os.getppid())}.json"
    )
    with open(path, "w", encoding="utf-8") as fp:
        json.dump(replay, fp, indent=1, ensure_ascii=False)
    return {
        "run": run_index,
        "class": violation.cls,
        "detail": violation.detail,
        "replay": path,
        "ops": len(best),
    }


def _brief_cfg(cfg):
    out = {}
    for key, value in cfg.items():
        if isinstance(value, dict):
            out[key] = {
                k: v for k, v in value.items() if not isinstance(v, (dict,))
            }
        else:
            out[key] = value
    return out


# ---------------------------------------------------------- known findings


def load_known(prop):
    path = os.environ.get("VERIF_KNOWN_FINDINGS") or os.path.join(
        VERIF_DIR, "known_findings.json"
    )
    try:
        with open(path, encoding="utf-8") as fp:
            data = json.load(fp)
    except FileNotFoundError:
        return []
    return [
        f
        for f in data.get("findings", [])
        if f.get("property") == prop and f.get("status") == "open"
    ]


# ------------------------------------------------------------------ replay


def replay_file(path: str, quiet=False) -> int:
    """Execute a replay file in this (fresh) interpreter."""
    with open(path, encoding="utf-8") as fp:
        replay = json.load(fp)
    want_hash = replay.get("pythonhashseed")
    want_opt = int(replay.get("python_optimize") or 0)
    if (
        (
            (want_hash is not None
             and os.environ.get("PYTHONHASHSEED") != str(want_hash))
            or sys.flags.optimize != want_opt
            or sys.flags.utf8_mode
        )
        and not os.environ.get("SIMLAB_REEXEC")
    ):
        # same process environment as the run that found it
        env = dict(os.environ, SIMLAB_REEXEC="1", PYTHONUTF8="0",
                   LANG="C.UTF-8")
        env.pop("LC_ALL", None)
        env.pop("LC_CTYPE", None)
        if want_hash is not None:
            env["PYTHONHASHSEED"] = str(want_hash)
        env.pop("PYTHONOPTIMIZE", None)
        if want_opt:
            env["PYTHONOPTIMIZE"] = str(want_opt)
        os.execve(PYTHON, [PYTHON] + sys.argv, env)
    prop = replay["property"]
    m = sim_kind(prop)
    base = os.path.join(scratch_base(), f"simlab-replay-{os.getpid()}")
    os.makedirs(base, exist_ok=True)
    template = Template(
        os.path.join(repo_dir(), "src"),
        os.path.join(base, "template.sock"),
        flavour=m.SIM.flavour,
    )
    code = EXIT_OK
    try:
        template.start()
        sim, v = execute(
            prop, template, os.path.join(base, "r"), replay["ops"],
            replay["seed_tag"],
        )
        digest_same = sim.log.digest() == replay.get("event_log_sha256")
        if v is not None:
            same = v.cls == replay["violation"]["class"]
            if not quiet:
                print(f"violation class: {v.cls}")
                print(f"detail: {v.detail}")
                print(
                    f"same class as recorded: {same}; "
                    f"event-log digest identical: {digest_same}"
                )
            listed = [f for f in load_known(prop) if f["class"] == v.cls]
            if listed:
                # a recorded, not repaired defect of the library: reported,
                # not alarmed about
                print(f"KNOWN-FINDING: property={prop} {listed[0]['what']}")
                code = EXIT_OK
            else:
                print(f"VIOLATION property={prop} replay={os.path.abspath(path)}")
                code = EXIT_VIOLATION
        else:
            if not quiet:
                print(
                    "replay executed without violation "
                    f"(recorded: {replay['violation']['class']})"
                )
            code = EXIT_OK
    except HarnessError as err:
        print(f"HARNESS-ERROR {err}")
        code = EXIT_HARNESS
    finally:
        template.stop()
        shutil.rmtree(base, ignore_errors=True)
    return code


# ------------------------------------------------------------------- pool

TIERS = {
    # budget seconds, workers, minimise seconds
    "quick": {"budget_s": 45, "minimise_s": 25},
    "thorough": {"budget_s": 600, "minimise_s": 90},
}


def hash_seed_for(seed: int, w: int) -> str:
    return str(derive_int("hashseed", seed, w) % 4294967295)


def run_pool(prop, tier, seed, budget_s=None, workers=None, max_runs=None,
             first_run=0, keep_digests=False, minimise_s=None,
             hash_salt=0, hash_fixed=None):
    """Start worker interpreters, wait, merge their results."""
    conf = dict(TIERS[tier])
    if budget_s is not None:
        conf["budget_s"] = budget_s
    if minimise_s is not None:
        conf["minimise_s"] = minimise_s
    workers = workers or min(16, os.cpu_count() or 1)
    _sweep_stale_scratch()
    base = os.path.join(scratch_base(), f"simlab-{os.getpid()}-{prop}")
    shutil.rmtree(base, ignore_errors=True)
    os.makedirs(base)
    procs = []
    started = time.monotonic()
    for w in range(workers):
        args = {
            "prop": prop,
            "seed": seed,
            "tier": tier,
            "worker": w,
            "workers": workers,
            "budget_s": conf["budget_s"],
            "minimise_s": conf["minimise_s"],
            "scratch": os.path.join(base, f"w{w}"),
            "result": os.path.join(base, f"w{w}.json"),
            "max_runs": max_runs,
            "first_run": first_run,
            "keep_digests": keep_digests,
        }
        env = dict(
            os.environ,
            PYTHONHASHSEED=(
                str(hash_fixed) if hash_fixed is not None
                else hash_seed_for(seed + hash_salt, w)
            ),
            PYTHONDONTWRITEBYTECODE="1",
            OMP_NUM_THREADS="1",
            OPENBLAS_NUM_THREADS="1",
            # no UTF-8 mode: the default text encoding of a node follows its
            # locale, which the simulator sets per node (machines differ)
            PYTHONUTF8="0",
            LANG="C.UTF-8",
        )
        env.pop("LC_ALL", None)
        env.pop("LC_CTYPE", None)
        # machines live in different time zones (nothing in soundevent looks
        # at the zone today)
        # (the zone of a *node* is part of a run's operation list -- `tz`
        # operations, default UTC -- so that a run is the same run on
        # whatever worker it lands, and in a replay)
        env["TZ"] = "UTC"
        if w % 8 == 7:
            # process-environment dimension: these workers (and the nodes
            # forked from them) run with assert statements compiled away
            env["PYTHONOPTIMIZE"] = "1"
        # output goes to a file, never to a pipe nobody drains: a library
        # that logs or prints must not be able to block a node
        log = open(os.path.join(base, f"w{w}.out"), "w+", encoding="utf-8",
                   errors="replace")
        proc = subprocess.Popen(
            [PYTHON, os.path.join(VERIF_DIR, "check.py"), "_worker", json.dumps(args)],
            env=env,
            stdout=log,
            stderr=subprocess.STDOUT,
            stdin=subprocess.DEVNULL,
        )
        procs.append((w, proc, args, log))
    results, errors = [], []
    hard_deadline = started + conf["budget_s"] + conf["minimise_s"] * 3 + 180
    for w, proc, args, log in procs:
        timeout = max(1.0, hard_deadline - time.monotonic())
        killed = False
        try:
            proc.wait(timeout=timeout)
        except subprocess.TimeoutExpired:
            proc.kill()
            proc.wait()
            killed = True
        log.seek(0, 2)
        log.seek(max(0, log.tell() - 4000))
        output = log.read()
        log.close()
        if killed:
            errors.append(f"worker {w} exceeded its wall limit and was killed")
            continue
        if proc.returncode != 0:
            errors.append(
                f"worker {w} exited with {proc.returncode}: {output[-1500:]}"
            )
            continue
        try:
            with open(args["result"], encoding="utf-8") as fp:
                res = json.load(fp)
        except (OSError, ValueError) as err:
            errors.append(f"worker {w} left no result: {err} {output[-500:]}")
            continue
        if res.get("error"):
            errors.append(f"worker {w}: {res['error']}")
        results.append(res)
    shutil.rmtree(base, ignore_errors=True)
    wall = time.monotonic() - started
    return merge(results), errors, wall, workers


def _sweep_stale_scratch(max_age_s=3 * 3600):
    """Remove scratch directories left behind by checks that were killed."""
    root = scratch_base()
    now = time.time()
    try:
        names = os.listdir(root)
    except OSError:
        return
    for name in names:
        if not name.startswith("simlab-"):
            continue
        path = os.path.join(root, name)
        try:
            if now - os.path.getmtime(path) > max_age_s:
                shutil.rmtree(path, ignore_errors=True)
        except OSError:
            pass


def merge(results):
    total = {
        "runs": 0,
        "ops": 0,
        "nontrivial": 0,
        "traces": set(),
        "states": set(),
        "probes": Counter(),
        "faults": Counter(),
        "samples": [],
        "violations": [],
        "known_hits": Counter(),
        "digests": {},
        "sim_seconds": 0.0,
        "checked": 0,
        "template": None,
        "full_sample": None,
    }
    for res in sorted(results, key=lambda r: r["worker"]):
        total["runs"] += res["runs"]
        total["ops"] += res["ops"]
        total["nontrivial"] += res["nontrivial"]
        total["traces"].update(res["traces"])
        total["states"].update(res["states"])
        total["probes"].merge(res["probes"])
        total["faults"].merge(res["faults"])
        total["known_hits"].merge(res["known_hits"])
        total["samples"].extend(res["samples"])
        total["violations"].extend(res["violations"])
        total["digests"].update(res["digests"])
        total["sim_seconds"] += res["sim_seconds"]
        total["checked"] += res["checked"]
        total["template"] = total["template"] or res.get("template")
        if res.get("python_optimize"):
            total["workers_with_python_optimize"] = (
                total.get("workers_with_python_optimize", 0) + 1
            )
        fs = res.get("full_sample")
        if fs and (
            total.get("full_sample") is None
            or fs["size"] < total["full_sample"]["size"]
        ):
            total["full_sample"] = fs
    total["samples"] = total["samples"][:3]
    return total
