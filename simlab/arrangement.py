"""Reference predicate of C04 over a neutral arrangement structure.

Three extractors feed one predicate: from a canonical object graph returned
by a node (what *exists* after construction / load), from an AOEF document
(what is *stored*), and from a world spec restricted to one target object
(what is *about to be constructed*).

arrangement = {
  "clips":   [{"id", "start", "end"}],
  "matches": [{"id", "source", "target", "affinity", "score"}],
  "clip_evaluations": [{"id", "ann_clip", "pred_clip", "annotated": [ids],
                        "predicted": [ids], "match_sources": [ids],
                        "match_targets": [ids], "score"}],
  "scores":  [(class.field, value)],   # ge=0 / le=1 fields of anchored classes
  "projects": [{"annotated_clips": [ids], "task_clips": [ids]}],
}
"""

from __future__ import annotations


def in_unit(x) -> bool:
    return x is not None and 0 <= x <= 1


def _score(arr, where, value):
    # an absent (None) score is no score: nothing to lie in [0,1]
    if value is not None:
        arr["scores"].append((where, value))


def check(arr) -> list:
    """Return the list of broken invariants as (invariant, where)."""
    broken = []
    for clip in arr.get("clips", []):
        if clip["start"] > clip["end"]:
            broken.append(("clip-start-after-end", "Clip"))
    for m in arr.get("matches", []):
        if m["source"] is None and m["target"] is None:
            broken.append(("match-without-side", "Match"))
        if not in_unit(m["affinity"]):
            broken.append(("range", "Match.affinity"))
        if m["score"] is not None and not in_unit(m["score"]):
            broken.append(("range", "Match.score"))
    for e in arr.get("clip_evaluations", []):
        if e["ann_clip"] != e["pred_clip"]:
            broken.append(("clips-differ", "ClipEvaluation"))
        if sorted(e["match_targets"]) != sorted(set(e["annotated"])):
            broken.append(("targets-not-exactly-once", "ClipEvaluation"))
        if sorted(e["match_sources"]) != sorted(set(e["predicted"])):
            broken.append(("sources-not-exactly-once", "ClipEvaluation"))
        if e["score"] is not None and not in_unit(e["score"]):
            broken.append(("range", "ClipEvaluation.score"))
    for where, value in arr.get("scores", []):
        if not in_unit(value):
            broken.append(("range", where))
    for project in arr.get("projects", []):
        if not set(project["annotated_clips"]) <= set(project["task_clips"]):
            broken.append(("annotation-without-task", "AnnotationProject"))
    return broken


# ------------------------------------------------------------- from canon


def _uuid_of_ref(ref):
    # {"__ref": "Class:<uuid>#n"}
    return ref["__ref"].split(":", 1)[1].rsplit("#", 1)[0]


def from_canon(canon) -> dict:
    defs = canon["defs"]
    arr = {
        "clips": [],
        "matches": [],
        "clip_evaluations": [],
        "scores": [],
        "projects": [],
    }

    def body(ref):
        return defs[ref["__ref"]]

    def walk_scores(value):
        if isinstance(value, dict):
            if value.get("__type") == "PredictedTag":
                _score(arr, "PredictedTag.score", value["score"])
            for item in value.values():
                walk_scores(item)
        elif isinstance(value, list):
            for item in value:
                walk_scores(item)

    for key, b in defs.items():
        kind = b.get("__type")
        if kind == "Clip":
            arr["clips"].append(
                {"id": key, "start": b["start_time"], "end": b["end_time"]}
            )
        elif kind == "Match":
            arr["matches"].append(
                {
                    "id": key,
                    "source": b["source"] and _uuid_of_ref(b["source"]),
                    "target": b["target"] and _uuid_of_ref(b["target"]),
                    "affinity": b["affinity"],
                    "score": b["score"],
                }
            )
        elif kind == "ClipEvaluation":
            ann = body(b["annotations"])
            pred = body(b["predictions"])
            matches = [body(m) for m in b["matches"]]
            arr["clip_evaluations"].append(
                {
                    "id": key,
                    "ann_clip": _uuid_of_ref(ann["clip"]),
                    "pred_clip": _uuid_of_ref(pred["clip"]),
                    "annotated": [
                        _uuid_of_ref(r) for r in ann["sound_events"]
                    ],
                    "predicted": [
                        _uuid_of_ref(r) for r in pred["sound_events"]
                    ],
                    "match_sources": [
                        _uuid_of_ref(m["source"])
                        for m in matches
                        if m["source"] is not None
                    ],
                    "match_targets": [
                        _uuid_of_ref(m["target"])
                        for m in matches
                        if m["target"] is not None
                    ],
                    "score": b["score"],
                }
            )
        elif kind in ("SoundEventPrediction", "SequencePrediction"):
            _score(arr, f"{kind}.score", b["score"])
        elif kind == "AnnotationProject":
            arr["projects"].append(
                {
                    "annotated_clips": [
                        _uuid_of_ref(body(r)["clip"])
                        for r in b["clip_annotations"]
                    ],
                    "task_clips": [
                        _uuid_of_ref(body(r)["clip"]) for r in b["tasks"]
                    ],
                }
            )
        walk_scores(b)
    walk_scores(canon["root"])
    return arr


# --------------------------------------------------------------- from doc


def from_doc(doc, reachable_only=True) -> dict:
    """Arrangement stored in a (closed) AOEF document.

    Only the lists that belong to the document's collection type count (an
    annotation project has no matches, clip evaluations or predictions, and a
    loader rightly ignores such keys if a storage fault spliced them in), and
    of those only the records the collection reaches, unless
    ``reachable_only`` is off: a loader may build a record nothing refers to
    (and refuse the document for it) or skip it, so "must be refused" is
    judged on the reachable records and "must load" on all of them.
    """
    data = doc["data"]
    kind = data.get("collection_type")
    if kind in ("prediction_set", "model_run"):
        foreign = ("matches", "clip_evaluations", "clip_annotations", "tasks")
    elif kind == "evaluation":
        foreign = ("tasks",)
    else:
        foreign = ("matches", "clip_evaluations", "clip_predictions",
                   "sound_event_predictions", "sequence_predictions")
    data = {k: v for k, v in data.items() if k not in foreign}

    def index(name):
        return {rec["uuid"]: rec for rec in data.get(name) or []}

    all_clips = index("clips")
    anns = index("clip_annotations")
    preds = index("clip_predictions")
    all_matches = index("matches")
    se_preds = index("sound_event_predictions")
    seq_preds = index("sequence_predictions")

    # only what is reachable from the collection counts: a record that
    # nothing refers to is not part of the arrangement being constructed, and
    # a loader may or may not bother to build it
    if data.get("collection_type") == "evaluation":
        root_evals = list(data.get("clip_evaluations") or [])
        root_anns = [anns[e["annotations"]] for e in root_evals]
        root_preds = [preds[e["predictions"]] for e in root_evals]
        match_ids = [i for e in root_evals for i in e.get("matches") or []]
    elif data.get("collection_type") in ("prediction_set", "model_run"):
        root_evals, root_anns, match_ids = [], [], []
        root_preds = list(preds.values())
    else:
        root_evals, root_preds, match_ids = [], [], []
        root_anns = list(anns.values())
    matches = {i: all_matches[i] for i in match_ids}
    clip_ids = {a["clip"] for a in root_anns} | {p_["clip"] for p_ in root_preds}
    clip_ids |= {t["clip"] for t in data.get("tasks") or []}
    clips = {i: all_clips[i] for i in clip_ids}
    used_se_preds = {
        i for p_ in root_preds for i in p_.get("sound_events") or []
    } | {m.get("source") for m in matches.values() if m.get("source")}
    used_seq_preds = {i for p_ in root_preds for i in p_.get("sequences") or []}
    if not reachable_only:
        matches, clips = all_matches, all_clips
        used_se_preds, used_seq_preds = set(se_preds), set(seq_preds)
        root_preds = list(preds.values())
    arr = {
        "clips": [
            {"id": c["uuid"], "start": c["start_time"], "end": c["end_time"]}
            for c in clips.values()
        ],
        "matches": [
            {
                "id": m["uuid"],
                "source": m.get("source"),
                "target": m.get("target"),
                "affinity": m.get("affinity", 0.0),  # the field's default
                "score": m.get("score"),
            }
            for m in matches.values()
        ],
        "clip_evaluations": [],
        "scores": [],
        "projects": [],
    }
    for e in root_evals:
        ann = anns[e["annotations"]]
        pred = preds[e["predictions"]]
        own = [all_matches[i] for i in e.get("matches") or []]
        arr["clip_evaluations"].append(
            {
                "id": e["uuid"],
                "ann_clip": ann["clip"],
                "pred_clip": pred["clip"],
                "annotated": list(ann.get("sound_events") or []),
                "predicted": list(pred.get("sound_events") or []),
                "match_sources": [
                    m["source"] for m in own if m.get("source") is not None
                ],
                "match_targets": [
                    m["target"] for m in own if m.get("target") is not None
                ],
                "score": e.get("score"),
            }
        )
    for table, used, cls in (
        (se_preds, used_se_preds, "SoundEventPrediction"),
        (seq_preds, used_seq_preds, "SequencePrediction"),
    ):
        for ident in used:
            p = table[ident]
            arr["scores"].append((f"{cls}.score", p.get("score", 1)))
            for _tag, score in p.get("tags") or []:
                arr["scores"].append(("PredictedTag.score", score))
    for p in root_preds:
        for _tag, score in p.get("tags") or []:
            arr["scores"].append(("PredictedTag.score", score))
    if data.get("collection_type") == "annotation_project":
        arr["projects"].append(
            {
                "annotated_clips": [
                    a["clip"] for a in data.get("clip_annotations") or []
                ],
                "task_clips": [t["clip"] for t in data.get("tasks") or []],
            }
        )
    return arr


# -------------------------------------------------------------- from spec


def from_spec_target(spec, target) -> dict:
    """Arrangement of exactly the object named by target = {cls, index}."""
    arr = {
        "clips": [],
        "matches": [],
        "clip_evaluations": [],
        "scores": [],
        "projects": [],
    }
    cls, i = target["cls"], target.get("index", 0)
    if cls == "Clip":
        c = spec["clips"][i]
        arr["clips"].append(
            {"id": c["uuid"], "start": c["start_time"], "end": c["end_time"]}
        )
    elif cls == "Match":
        m = spec["matches"][i]
        arr["matches"].append(_spec_match(spec, m))
    elif cls == "ClipEvaluation":
        e = spec["clip_evaluations"][i]
        ann = spec["clip_annotations"][e["annotations"]]
        pred = spec["clip_predictions"][e["predictions"]]
        own = [spec["matches"][j] for j in e.get("matches", [])]
        arr["clip_evaluations"].append(
            {
                "id": e["uuid"],
                "ann_clip": spec["clips"][ann["clip"]]["uuid"],
                "pred_clip": spec["clips"][pred["clip"]]["uuid"],
                "annotated": [
                    spec["se_annotations"][j]["uuid"]
                    for j in ann.get("sound_events", [])
                ],
                "predicted": [
                    spec["se_predictions"][j]["uuid"]
                    for j in pred.get("sound_events", [])
                ],
                "match_sources": [
                    spec["se_predictions"][m["source"]]["uuid"]
                    for m in own
                    if m.get("source") is not None
                ],
                "match_targets": [
                    spec["se_annotations"][m["target"]]["uuid"]
                    for m in own
                    if m.get("target") is not None
                ],
                "score": e.get("score"),
            }
        )
    elif cls == "SoundEventPrediction":
        arr["scores"].append(
            (f"{cls}.score", spec["se_predictions"][i].get("score", 1))
        )
    elif cls == "SequencePrediction":
        arr["scores"].append(
            (f"{cls}.score", spec["seq_predictions"][i].get("score", 1))
        )
    elif cls == "PredictedTag":
        pool, j = target["pool"], target["pos"]
        arr["scores"].append(
            ("PredictedTag.score", spec[pool][i]["tags"][j][1])
        )
    elif cls == "AnnotationProject":
        root = spec["roots"]["annotation_project"]
        arr["projects"].append(
            {
                "annotated_clips": [
                    spec["clips"][spec["clip_annotations"][j]["clip"]]["uuid"]
                    for j in root["clip_annotations"]
                ],
                "task_clips": [
                    spec["clips"][spec["tasks"][j]["clip"]]["uuid"]
                    for j in root["tasks"]
                ],
            }
        )
    else:
        raise ValueError(cls)
    return arr


def _spec_match(spec, m):
    return {
        "id": m["uuid"],
        "source": (
            None
            if m.get("source") is None
            else spec["se_predictions"][m["source"]]["uuid"]
        ),
        "target": (
            None
            if m.get("target") is None
            else spec["se_annotations"][m["target"]]["uuid"]
        ),
        "affinity": m.get("affinity", 0.0),
        "score": m.get("score"),
    }


def spec_is_valid(spec) -> list:
    """Broken invariants of a whole world spec (reference; [] when valid)."""
    broken = []
    for i in range(len(spec.get("clips", []))):
        broken += check(from_spec_target(spec, {"cls": "Clip", "index": i}))
    for i in range(len(spec.get("matches", []))):
        broken += check(from_spec_target(spec, {"cls": "Match", "index": i}))
    for i in range(len(spec.get("clip_evaluations", []))):
        broken += check(
            from_spec_target(spec, {"cls": "ClipEvaluation", "index": i})
        )
    for pool, cls in (("se_predictions", "SoundEventPrediction"),
                      ("seq_predictions", "SequencePrediction")):
        for i, p_ in enumerate(spec.get(pool, [])):
            broken += check(from_spec_target(spec, {"cls": cls, "index": i}))
            for pos in range(len(p_.get("tags", []))):
                broken += check(from_spec_target(
                    spec, {"cls": "PredictedTag", "index": i, "pool": pool,
                           "pos": pos}))
    broken += check(from_spec_target(spec, {"cls": "AnnotationProject"}))
    return broken
