"""Independent AOEF 1.1.0 writer: world spec -> document (worker side).

Used by C04 to put *any* arrangement on disk, valid or not (soundevent's own
``save`` can only write what it could construct). Emits exactly the entities
reachable from the chosen root, like ``save`` does.
"""

from __future__ import annotations


def _features(items):
    return {label: value for label, value in items} if items else None


def _clean(d):
    return {k: v for k, v in d.items() if v is not None}


def render(spec: dict, root_kind: str, created_on="2020-01-01T00:00:00",
           extra=None) -> dict:
    root = spec["roots"][root_kind]
    used = {
        pool: {}
        for pool in (
            "users", "tags", "recordings", "clips", "sound_events",
            "sequences", "se_annotations", "seq_annotations",
            "clip_annotations", "se_predictions", "seq_predictions",
            "clip_predictions", "matches", "clip_evaluations", "tasks",
        )
    }

    def use(pool, i):
        if i is None:
            return None
        if i not in used[pool]:
            used[pool][i] = None  # reserve: keeps first-use order
            used[pool][i] = BUILD[pool](spec[pool][i])
        return i

    def uid(pool, i):
        use(pool, i)
        return spec[pool][i]["uuid"]

    def note(n):
        return _clean(
            {
                "uuid": n["uuid"],
                "message": n["message"],
                "created_by": (
                    None
                    if n.get("created_by") is None
                    else uid("users", n["created_by"])
                ),
                "is_issue": n.get("is_issue", False),
                "created_on": n.get("created_on"),
            }
        )

    def tag_ids(items):
        return [use("tags", i) for i in items]

    def ptags(items):
        return [[use("tags", i), score] for i, score in items]

    def b_user(u):
        return _clean(dict(u))

    def b_tag(t):
        return {"key": t[0], "value": t[1]}

    def b_recording(r):
        out = {
            "uuid": r["uuid"],
            "path": r["path"],
            "duration": r["duration"],
            "channels": r["channels"],
            "samplerate": r["samplerate"],
        }
        te = r.get("time_expansion")
        if te is not None and te != 1.0:
            out["time_expansion"] = te
        for key in ("hash", "date", "time", "latitude", "longitude",
                    "rights", "license"):
            if key in r:
                out[key] = r[key]
        out["tags"] = tag_ids(r.get("tags", [])) or None
        out["features"] = _features(r.get("features"))
        out["notes"] = [note(n) for n in r.get("notes", [])] or None
        out["owners"] = [uid("users", i) for i in r.get("owners", [])]
        return _clean(out)

    def b_clip(c):
        return _clean(
            {
                "uuid": c["uuid"],
                "recording": uid("recordings", c["recording"]),
                "start_time": c["start_time"],
                "end_time": c["end_time"],
                "features": _features(c.get("features")),
            }
        )

    def b_sound_event(s):
        return _clean(
            {
                "uuid": s["uuid"],
                "recording": uid("recordings", s["recording"]),
                "geometry": s.get("geometry"),
                "features": _features(s.get("features")),
            }
        )

    def b_sequence(q):
        parent = q.get("parent")
        return _clean(
            {
                "uuid": q["uuid"],
                "parent": None if parent is None else uid("sequences", parent),
                "sound_events": [
                    uid("sound_events", i) for i in q["sound_events"]
                ],
                "features": _features(q.get("features")),
            }
        )

    def annotation_common(a):
        return {
            "notes": [note(n) for n in a.get("notes", [])] or None,
            "tags": tag_ids(a.get("tags", [])),
            "created_by": (
                None
                if a.get("created_by") is None
                else uid("users", a["created_by"])
            ),
            "created_on": a.get("created_on"),
        }

    def b_se_annotation(a):
        return _clean(
            {
                "uuid": a["uuid"],
                "sound_event": uid("sound_events", a["sound_event"]),
                **annotation_common(a),
            }
        )

    def b_seq_annotation(a):
        return _clean(
            {
                "uuid": a["uuid"],
                "sequence": uid("sequences", a["sequence"]),
                **annotation_common(a),
            }
        )

    def b_clip_annotation(a):
        return _clean(
            {
                "uuid": a["uuid"],
                "clip": uid("clips", a["clip"]),
                "tags": tag_ids(a.get("tags", [])) or None,
                "sound_events": [
                    uid("se_annotations", i) for i in a.get("sound_events", [])
                ]
                or None,
                "sequences": [
                    uid("seq_annotations", i) for i in a.get("sequences", [])
                ]
                or None,
                "notes": [note(n) for n in a.get("notes", [])] or None,
                "created_on": a.get("created_on"),
            }
        )

    def b_se_prediction(p):
        return _clean(
            {
                "uuid": p["uuid"],
                "sound_event": uid("sound_events", p["sound_event"]),
                "score": p.get("score", 1.0),
                "tags": ptags(p.get("tags", [])) or None,
            }
        )

    def b_seq_prediction(p):
        return _clean(
            {
                "uuid": p["uuid"],
                "sequence": uid("sequences", p["sequence"]),
                "score": p.get("score", 1.0),
                "tags": ptags(p.get("tags", [])) or None,
            }
        )

    def b_clip_prediction(p):
        return _clean(
            {
                "uuid": p["uuid"],
                "clip": uid("clips", p["clip"]),
                "sound_events": [
                    uid("se_predictions", i) for i in p.get("sound_events", [])
                ]
                or None,
                "sequences": [
                    uid("seq_predictions", i) for i in p.get("sequences", [])
                ]
                or None,
                "tags": ptags(p.get("tags", [])) or None,
                "features": _features(p.get("features")),
            }
        )

    def b_match(m):
        return _clean(
            {
                "uuid": m["uuid"],
                "source": (
                    None
                    if m.get("source") is None
                    else uid("se_predictions", m["source"])
                ),
                "target": (
                    None
                    if m.get("target") is None
                    else uid("se_annotations", m["target"])
                ),
                "affinity": m.get("affinity", 0.0),
                "score": m.get("score"),
                "metrics": _features(m.get("metrics")),
            }
        )

    def b_clip_evaluation(e):
        return _clean(
            {
                "uuid": e["uuid"],
                "annotations": uid("clip_annotations", e["annotations"]),
                "predictions": uid("clip_predictions", e["predictions"]),
                "matches": [uid("matches", i) for i in e.get("matches", [])]
                or None,
                "metrics": _features(e.get("metrics")),
                "score": e.get("score"),
            }
        )

    def b_task(t):
        return _clean(
            {
                "uuid": t["uuid"],
                "clip": uid("clips", t["clip"]),
                "status_badges": [
                    _clean(
                        {
                            "state": b["state"],
                            "owner": (
                                None
                                if b.get("owner") is None
                                else uid("users", b["owner"])
                            ),
                            "created_on": b.get("created_on"),
                        }
                    )
                    for b in t.get("status_badges", [])
                ]
                or None,
                "created_on": t.get("created_on"),
            }
        )

    BUILD = {
        "users": b_user,
        "tags": b_tag,
        "recordings": b_recording,
        "clips": b_clip,
        "sound_events": b_sound_event,
        "sequences": b_sequence,
        "se_annotations": b_se_annotation,
        "seq_annotations": b_seq_annotation,
        "clip_annotations": b_clip_annotation,
        "se_predictions": b_se_prediction,
        "seq_predictions": b_seq_prediction,
        "clip_predictions": b_clip_prediction,
        "matches": b_match,
        "clip_evaluations": b_clip_evaluation,
        "tasks": b_task,
    }

    data = {"uuid": root["uuid"], "collection_type": root_kind}
    if "created_on" in root:
        data["created_on"] = root["created_on"]
    for key in ("name", "description", "instructions", "version",
                "evaluation_task", "score"):
        if key in root:
            data[key] = root[key]
    members = {}
    for key, pool in (
        ("recordings", "recordings"),
        ("clip_annotations", "clip_annotations"),
        ("clip_predictions", "clip_predictions"),
        ("clip_evaluations", "clip_evaluations"),
        ("tasks", "tasks"),
    ):
        if key in root:
            members[key] = [uid(pool, i) for i in root[key]]
    for pool, indices in (extra or {}).items():
        if pool in used:
            for i in indices:
                use(pool, i)
    if "annotation_tags" in root:
        data["project_tags"] = tag_ids(root["annotation_tags"]) or None
    if "evaluation_tags" in root:
        data["evaluation_tags"] = tag_ids(root["evaluation_tags"]) or None
    if root.get("metrics"):
        data["metrics"] = _features(root["metrics"])

    def emit(name, pool, with_id=False):
        records = []
        for i, rec in used[pool].items():
            if with_id:
                rec = {"id": i, **rec}
            records.append(rec)
        if records:
            data[name] = records

    emit("users", "users")
    emit("tags", "tags", with_id=True)
    emit("recordings", "recordings")
    emit("clips", "clips")
    emit("sound_events", "sound_events")
    # parents were built inside their children: order parents first
    seq_order = sorted(used["sequences"])
    used["sequences"] = {i: used["sequences"][i] for i in seq_order}
    emit("sequences", "sequences")
    emit("sound_event_annotations", "se_annotations")
    emit("sequence_annotations", "seq_annotations")
    emit("clip_annotations", "clip_annotations")
    emit("sound_event_predictions", "se_predictions")
    emit("sequence_predictions", "seq_predictions")
    emit("clip_predictions", "clip_predictions")
    emit("matches", "matches")
    emit("clip_evaluations", "clip_evaluations")
    if root_kind == "annotation_project":
        data["tasks"] = list(used["tasks"].values())
    if root_kind in ("recording_set", "dataset") and "recordings" not in data:
        data["recordings"] = []
    return {
        "version": "1.1.0",
        "created_on": created_on,
        "data": _clean(data),
    }
