"""Simulated world for C15: audio files that move under the reader.

The scheduler writes WAV files itself (RIFF header + PCM-16 payload whose
sample values are a known integer function of (file, frame, channel)), so
header and payload can disagree (torn copy) and the file can change between
the moment a ``Recording``'s metadata is captured and the moment it is read
(truncate, append with or without header rewrite, replace). EOF therefore
lands at an arbitrary frame relative to a clip window, independent of the
recording metadata. Nodes run the real ``soundevent.audio`` code on the real
files through libsndfile; open / read errors are injected through the
``soundevent.audio.io.sf`` seam.
"""

from __future__ import annotations

import base64
import math
import os
import struct
from fractions import Fraction

import numpy as np

from .core import HarnessError, jdump, sha
from .nodes import NodeCrashed
from .sim_aoef import AoefSim

SAMPLE_RATES = [8000, 44100, 7, 7919, 12345, 250000, 384000, 22050, 1, 16000]
TIME_EXPANSIONS = [1.0, 1.0, 10.0, 0.5, 2.5, 0.1]
AUDIO_FILES = ["a.wav", "sub dir/b.wav", "ünï/c.wav", "sub dir/e.flac"]


def is_flac(f):
    return AUDIO_FILES[f % len(AUDIO_FILES)].endswith(".flac")


def flac_rate(sr):
    """The nearest rate a FLAC stream can carry: any rate up to 65535 Hz,
    multiples of 10 Hz up to 655350 Hz (measured against libsndfile 1.2.2)."""
    sr = min(sr, 655_350)
    return sr if sr <= 65_535 else sr - sr % 10


def flac_bytes(values: np.ndarray, sr: int, bits: int) -> bytes:
    """A FLAC stream (lossless, whole-number samples of 16 or 24 bits) holding
    exactly these frames, written by libsndfile in the scheduler process. The
    file is compressed, so there is no byte arithmetic to model: it holds the
    frames it was made from or it is replaced as a whole."""
    import io as _io  # noqa: PLC0415

    import soundfile as sf  # noqa: PLC0415

    data = values.astype(np.int16) if bits == 16 else (values << 8).astype(np.int32)
    buf = _io.BytesIO()
    sf.write(buf, data, sr, format="FLAC", subtype=f"PCM_{bits}")
    return buf.getvalue()


PCM_GUID = bytes.fromhex("0100000000001000800000aa00389b71")


def wav_header(sr, ch, frames, bits=16, layout="plain", enc="pcm") -> bytes:
    """RIFF/WAVE header. Layouts: the canonical 44 bytes; a LIST/INFO chunk
    between ``fmt `` and ``data`` (what most editors write); a
    WAVE_FORMAT_EXTENSIBLE ``fmt `` chunk (what recorders write for 24 bit
    or more than two channels)."""
    width = bits // 8
    block = ch * width
    size = frames * block
    if layout == "extensible":
        fmt = struct.pack(
            "<HHIIHHHHI16s", 0xFFFE, ch, sr, (sr * block) & 0xFFFFFFFF, block,
            bits, 22, bits, 0,
            (b"\x03" if enc == "float" else b"\x01") + PCM_GUID[1:],
        )
    else:
        fmt = struct.pack(
            "<HHIIHH", 3 if enc == "float" else 1, ch, sr,
            (sr * block) & 0xFFFFFFFF, block, bits,
        )
    chunks = struct.pack("<4sI", b"fmt ", len(fmt)) + fmt
    if layout == "list":
        info = b"INFOISFT" + struct.pack("<I", 14) + b"simlab writer\0"
        chunks += struct.pack("<4sI", b"LIST", len(info)) + info
    body = b"WAVE" + chunks + struct.pack("<4sI", b"data", size & 0xFFFFFFFF)
    return struct.pack("<4sI", b"RIFF", (len(body) + size) & 0xFFFFFFFF) + body


def sample_values(salt, first, count, ch, bits=16) -> np.ndarray:
    """Signed PCM samples of the given width as int64, shape (count, ch): a
    pure function of its arguments."""
    f = np.arange(first, first + count, dtype=np.uint64)[:, None]
    c = np.arange(ch, dtype=np.uint64)[None, :]
    span = np.uint64(1 << bits)
    v = ((f * 7 + c * 13 + np.uint64(salt)) * np.uint64(2654435761)) % span
    return v.astype(np.int64) - (1 << (bits - 1))


def pcm_bytes(values: np.ndarray, bits: int, enc="pcm") -> bytes:
    if enc == "float":
        # IEEE float samples: value / 2**15, exact in 32 bits
        return (values.astype(np.float64) / 32768.0).astype("<f4").tobytes()
    if bits == 8:
        return (values + 128).astype(np.uint8).tobytes()  # WAV 8 bit is unsigned
    if bits == 16:
        return values.astype("<i2").tobytes()
    if bits == 32:
        return values.astype("<i4").tobytes()
    raw = values.astype("<i4").tobytes()  # 24 bit: drop the top byte
    arr = np.frombuffer(raw, dtype=np.uint8).reshape(-1, 4)[:, :3]
    return arr.tobytes()


def _decode(text, shape=None):
    arr = np.frombuffer(base64.b64decode(text), dtype="<f8")
    return arr.reshape(shape) if shape is not None else arr


def floors(x_float_product, exact: Fraction):
    """Candidate floors: the exact rational value's, the float product's, and
    -- when the exact value is within a few ulps of a whole number -- both
    sides of it: which float expression an implementation uses (x*sr,
    x/(1/sr), round-then-floor) is its own business; they differ only there."""
    out = {int(math.floor(x_float_product)), int(math.floor(exact))}
    if exact.denominator == 1:
        return out  # a whole number of samples: nothing to argue about
    eps = Fraction(abs(exact)) * Fraction(1, 1 << 50)
    out.add(int(math.floor(exact - eps)))
    out.add(int(math.floor(exact + eps)))
    return out


class AudioSim(AoefSim):
    flavour = "audio"

    def __init__(self, *args, **kwargs):
        super().__init__(*args, **kwargs)
        self.afiles = {}  # f -> dict(sr, ch, header, salt, frames(int16 array), raw_len)
        self.recs = {}  # r -> dict(spec, file, frames_at_capture)
        self.arrays = {}  # handle -> dict(node, alive, kind, first, step, ...)
        self.checked_arrays = 0
        self.ambiguous = 0
        self.file_versions = {}
        self.last_clip_end = {}

    # -------------------------------------------------------------- helpers

    def apath(self, f):
        return os.path.join(self.run_dir, "audio", AUDIO_FILES[f % len(AUDIO_FILES)])

    def checked(self):
        return self.checked_arrays

    def nontrivial(self, prop):
        pr = self.probes
        hard = (
            pr.get("C15:clip-crosses-eof", 0)
            + pr.get("C15:clip-past-eof", 0)
            + pr.get("C15:clip-stale-metadata", 0)
        )
        return hard >= 1 and pr.get("C15:derived-array-checked", 0) >= 1

    def restart(self, n):
        super().restart(n)
        for h in self.arrays.values():
            if h["node"] == n:
                h["alive"] = False

    def on_disk(self, f):
        """Whole frames libsndfile can see: min(header, payload // block)."""
        st = self.afiles[f]
        if st["broken"]:
            return None
        n = min(st["header"], st["payload_bytes"] // (st["ch"] * st["bits"] // 8))
        return st["frames"][:n]

    def partial_row(self, f):
        """A torn payload may end inside a frame. libsndfile does not count
        that frame; whether the samples of it that *are* on disk show up in
        the row past the last whole frame, or zeros do, is not something the
        statement settles ("frames"), so both are accepted for that one row.
        Returns (row index, values with the missing channels zero) or None."""
        st = self.afiles[f]
        if st["broken"]:
            return None
        width = st["bits"] // 8
        block = st["ch"] * width
        whole = st["payload_bytes"] // block
        have = (st["payload_bytes"] % block) // width
        if whole >= st["header"] or not have or whole >= len(st["frames"]):
            return None
        row = np.zeros(st["ch"])
        row[:have] = st["frames"][whole][:have].astype(np.float64) / float(
            1 << (st["vbits"] - 1)
        )
        return whole, row

    def same_samples(self, f, want, data, first):
        """data == want, allowing the partial trailing frame (see above) in
        the row that holds file frame number `whole`; first = file frame
        number of row 0."""
        if np.array_equal(want, data):
            return True
        part = self.partial_row(f)
        if part is None or want.shape != data.shape:
            return False
        i = part[0] - first
        if not 0 <= i < len(want):
            return False
        alt = want.copy()
        alt[i] = part[1]
        if np.array_equal(alt, data):
            self.probes.hit("C15:partial-trailing-frame-shown")
            return True
        return False

    def write_file(self, f):
        st = self.afiles[f]
        path = self.apath(f)
        os.makedirs(os.path.dirname(path), exist_ok=True)
        if st.get("container") == "flac":
            raw = flac_bytes(st["frames"], st["sr"], st["bits"])
        else:
            raw = (
                wav_header(st["sr"], st["ch"], st["header"], st["bits"],
                           st.get("layout", "plain"), st.get("enc", "pcm"))
                + pcm_bytes(st["frames"], st["bits"], st.get("enc", "pcm"))[: st["payload_bytes"]]
            )
        if st["broken"]:
            raw = raw[: st["broken"]]
        with open(path, "wb") as fp:
            fp.write(raw)
        st["version"] = st.get("version", 0) + 1
        self.file_versions[f] = self.file_versions.get(f, 0) + 1
        st["version"] = self.file_versions[f]
        return raw

    def _apply(self, op):
        kind = op["op"]
        handler = {
            "create": self.do_create,
            "truncate": self.do_truncate,
            "append": self.do_append,
            "tear_header": self.do_tear_header,
            "recording": self.do_recording,
            "load_clip": self.do_load_clip,
            "load_recording": self.do_load_recording,
            "resample": self.do_derive,
            "spectrogram": self.do_derive,
            "scribble": self.do_scribble,
            "chain": self.do_chain,
            "recheck": self.do_recheck,
        }.get(kind)
        if handler is None:
            return super()._apply(op)
        self.i += 1
        handler(op)

    # ------------------------------------------------------------ file ops

    def do_create(self, op):
        bits = op.get("bits", 16)
        enc = "pcm"
        if bits == "f32":
            bits, enc = 32, "float"
        container = "flac" if is_flac(op["f"]) else "wav"
        if container == "flac":
            # what the format can hold: 16 or 24 bit whole numbers, at least
            # one frame (libsndfile 1.2.2 does not recognise an empty stream),
            # rates FLAC can carry (flac_rate)
            bits, enc = (24 if bits in (24, 32) else 16), "pcm"
            op = dict(op, frames=max(op["frames"], 1), sr=flac_rate(op["sr"]))
        vbits = 16 if enc == "float" else bits
        frames = sample_values(op["salt"], 0, op["frames"], op["ch"], vbits)
        self.afiles[op["f"]] = {
            "container": container,
            "sr": op["sr"], "ch": op["ch"], "header": op["frames"],
            "salt": op["salt"], "frames": frames, "bits": bits,
            "enc": enc, "vbits": vbits,
            "payload_bytes": frames.size * bits // 8, "broken": 0,
            "layout": op.get("layout", "plain"),
        }
        # a recording describes one file; when another file takes its place
        # (other rate, other channels) the description is not "stale", it is
        # of something else
        for r in [r for r, rec in self.recs.items() if rec["file"] == op["f"]]:
            del self.recs[r]
        self.probes.hit(f"file:{container}")
        self.probes.hit(f"file:{enc}-{bits}")
        self.probes.hit(f"file:header-{op.get('layout', 'plain')}")
        if op["frames"] >= 65_536:
            self.probes.hit("file:>=65536-frames")
        if op["frames"] >= (1 << 20):
            self.probes.hit("file:>=2**20-frames")
        raw = self.write_file(op["f"])
        self.record(op, "ok", file=sha(raw))
        self.trace.append(("create", op["ch"], op["frames"] == 0))
        self.probes.hit("file:create")

    def do_truncate(self, op):
        st = self.afiles.get(op["f"])
        if st is None:
            return self.record(op, "skipped")
        if st.get("container") == "flac":
            # no model of a compressed stream cut short
            return self.record(op, "skipped")
        total = st["payload_bytes"]
        keep = (total * op["permille"]) // 1000 + op.get("extra_bytes", 0)
        st["payload_bytes"] = max(0, min(total, keep))
        raw = self.write_file(op["f"])
        self.faults_fired.hit("file:truncated-payload")
        self.record(op, "ok", file=sha(raw))
        self.trace.append(
            ("truncate", st["payload_bytes"] % (st["ch"] * st["bits"] // 8) != 0)
        )

    def do_append(self, op):
        st = self.afiles.get(op["f"])
        if st is None:
            return self.record(op, "skipped")
        # a torn payload is completed first (the copy resumed)
        have = len(st["frames"])
        more = sample_values(st["salt"], have, op["frames"], st["ch"], st["vbits"])
        st["frames"] = np.concatenate([st["frames"], more])
        st["payload_bytes"] = st["frames"].size * st["bits"] // 8
        if op.get("rewrite_header", True) or st.get("container") == "flac":
            st["header"] = len(st["frames"])
            self.faults_fired.hit("file:grown")
        else:
            self.faults_fired.hit("file:grown-header-stale")
        raw = self.write_file(op["f"])
        self.record(op, "ok", file=sha(raw))
        self.trace.append(("append", op.get("rewrite_header", True)))

    def do_tear_header(self, op):
        st = self.afiles.get(op["f"])
        if st is None:
            return self.record(op, "skipped")
        st["broken"] = op["keep"]
        raw = self.write_file(op["f"])
        self.faults_fired.hit("file:torn-header")
        self.record(op, "ok", file=sha(raw))
        self.trace.append(("tear_header",))

    # ----------------------------------------------------------- recordings

    def rec_path(self, op, f):
        """Recording.path and audio_dir as the caller would hold them."""
        full = self.apath(f)
        root = os.path.join(self.run_dir, "audio")
        if op.get("relative") == "cwd":
            # relative to the caller's working directory, no audio_dir: the
            # node changes into the audio directory before the call
            return os.path.relpath(full, root), "cwd:" + root
        if op.get("relative"):
            return os.path.relpath(full, root), root
        return full, None

    def do_recording(self, op):
        st = self.afiles.get(op["f"])
        if st is None:
            return self.record(op, "skipped")
        te = op["te"]
        if op["how"] == "from_file":
            node = self.node(op["node"])
            reply = node.call(
                "a_from_file", path=self.apath(op["f"]), time_expansion=te,
                compute_hash=op.get("hash", False),
                _env=self.env_audio(op.get("fault")),
            )
            self.note_fault(op, reply)
            if reply["outcome"] != "value":
                self.record(op, f"raised:{reply['exc']}")
                self.trace.append(("recording", "from_file", "raised"))
                if not reply.get("_fault_fired") and self.on_disk(op["f"]) is not None:
                    self.probes.hit("recording:from_file-raised-on-readable-file")
                return
            meta = {k: reply[k] for k in ("duration", "samplerate", "channels")}
        else:
            meta = {
                "duration": op["duration"],
                "samplerate": op["samplerate"],
                "channels": st["ch"],
            }
        path, root = self.rec_path(op, op["f"])
        self.recs[op["r"]] = {
            "spec": {
                "uuid": "00000000-0000-4000-8000-%012x" % op["r"],
                "path": path, "time_expansion": te, **meta,
            },
            "audio_dir": root,
            "file": op["f"],
            "how": op["how"],
            "frames_at_capture": (
                None if self.on_disk(op["f"]) is None else len(self.on_disk(op["f"]))
            ),
        }
        self.record(op, "ok", meta=jdump(meta))
        self.trace.append(("recording", op["how"], te != 1.0))
        self.probes.hit(f"recording:{op['how']}")
        if te != 1.0:
            self.probes.hit("recording:time-expansion")

    def env_audio(self, fault):
        env = self.env(None)
        env["audio_fault"] = fault
        return env

    def note_fault(self, op, reply):
        if reply.get("_fault_fired") and op.get("fault"):
            self.faults_fired.hit(op["fault"])

    # ------------------------------------------------------------- oracles

    def axis(self, producer, dim, entry, origin, tol_origin=1e-9):
        """Ride-along invariants of one coordinate axis."""
        n = entry["n"]
        if n == 0 or "values" not in entry:
            return
        values = _decode(entry["values"])
        step = entry["step"]
        if n >= 2 and not np.all(np.diff(values) > 0):
            self.violate(
                "C15", f"C15:axis:{producer}:{dim}:monotone",
                f"{dim} coordinates are not strictly increasing",
            )
        if origin is not None:
            if abs(values[0] - origin) > tol_origin * max(1.0, abs(origin)):
                self.violate(
                    "C15", f"C15:axis:{producer}:{dim}:origin",
                    f"first {dim} coordinate {values[0]!r}, source starts at {origin!r}",
                )
        if step is None or not step > 0:
            self.violate(
                "C15", f"C15:axis:{producer}:{dim}:step",
                f"advertised step is {step!r}",
            )
            return
        ideal = values[0] + np.arange(n) * step
        worst = float(np.max(np.abs(values - ideal)))
        if worst > step * (1 + 1e-9):
            i = int(np.argmax(np.abs(values - ideal)))
            self.violate(
                "C15", f"C15:axis:{producer}:{dim}:step",
                f"{dim}[{i}] = {values[i]!r} is {worst / step:.3f} advertised "
                f"steps (step={step!r}) away from first + i*step",
            )

    # ------------------------------------------------------------ load_clip

    def do_load_clip(self, op):
        rec = self.recs.get(op["r"])
        if rec is None:
            return self.record(op, "skipped")
        st = self.afiles[rec["file"]]
        spec = rec["spec"]
        sr = spec["samplerate"]
        if sr < 1:
            return self.record(op, "skipped-degenerate-samplerate")
        start = op["start"]
        end = op["end"]
        node = self.node(op["node"])
        try:
            reply = node.call(
                "a_load_clip", recording=spec, start=start, end=end,
                handle=op["h"], audio_dir=rec["audio_dir"],
                audio_as=op.get("audio_as", "str"),
                fresh=bool(op.get("fresh")),
                _env=self.env_audio(op.get("fault")),
            )
        except NodeCrashed:
            if "crash" not in (op.get("fault") or ""):
                raise HarnessError("node died in load_clip without an injected crash") from None
            self.restart(op["node"])
            self.faults_fired.hit(op["fault"])
            self.record(op, "crashed")
            self.trace.append(("load_clip", "crashed"))
            return
        self.note_fault(op, reply)
        if reply["outcome"] == "refused":
            self.record(op, f"refused:{reply.get('exc')}")
            self.trace.append(("load_clip", "refused"))
            self.probes.hit("world:construction-refused")
            return
        if not op.get("fresh"):
            self.probes.hit("C15:same-live-recording-object-again")
        fired = bool(reply.get("_fault_fired"))
        disk = self.on_disk(rec["file"])
        outcome = reply["outcome"]
        oclass = outcome if outcome != "raised" else f"raised:{reply['exc']}"
        o_c = floors(start * sr, Fraction(start) * Fraction(sr))
        n_c = floors((end - start) * sr,
                     (Fraction(end) - Fraction(start)) * Fraction(sr))
        if len(o_c) > 1 or len(n_c) > 1:
            self.ambiguous += 1
            self.probes.hit("C15:floor-ambiguous")
        o_min, n_max = min(o_c), max(n_c)
        situation = "unreadable"
        if disk is not None:
            total = len(disk)
            if n_max == 0:
                situation = "zero-frames"
            elif o_min >= total:
                situation = "past-eof"
            elif o_min + n_max > total:
                situation = "crossing-eof"
            else:
                situation = "inside"
        self.record(
            op, oclass, situation=situation, fired=fired,
            data=sha(reply["data"]) if outcome == "value" else None,
        )
        self.trace.append(
            ("load_clip", situation, oclass, spec["time_expansion"] != 1.0,
             op.get("fault"), st["ch"])
        )
        if disk is None:
            self.probes.hit(f"C15:unreadable-file:{oclass}")
            return
        if fired:
            self.probes.hit("C15:call-failed-by-injected-error")
            return
        stale = rec["frames_at_capture"] != len(disk)
        if outcome != "value":
            self.violate(
                "C15", f"C15:raised:{reply['exc']}:{situation}",
                f"load_clip({start!r}, {end!r}) at samplerate {sr} on a "
                f"readable file of {len(disk)} frames raised: {reply.get('msg')}",
            )
            return
        self.checked_arrays += 1
        last = self.last_clip_end.get((op["node"], op["r"]))
        if last is not None and last == start and end > start:
            self.probes.hit("C15:clip-starts-exactly-where-previous-ended")
        self.last_clip_end[(op["node"], op["r"])] = end
        self.probes.hit(f"C15:clip-{situation}")
        if situation == "crossing-eof":
            self.probes.hit("C15:clip-crosses-eof")
        if stale:
            self.probes.hit("C15:clip-stale-metadata")
        if spec["time_expansion"] != 1.0:
            self.probes.hit("C15:clip-time-expansion")
        if str(rec["audio_dir"] or "").startswith("cwd:"):
            self.probes.hit("C15:clip-path-relative-to-working-directory")
        if Fraction(start) * sr != math.floor(Fraction(start) * sr):
            self.probes.hit("C15:clip-start-off-boundary")
        shape = reply["shape"]
        if reply["dims"] != ["time", "channel"] or len(shape) != 2:
            self.violate("C15", "C15:frames", f"dims {reply['dims']} shape {shape}")
            return
        if shape[0] not in n_c:
            self.violate(
                "C15", "C15:frames",
                f"load_clip({start!r}, {end!r}) sr={sr}: {shape[0]} frames, "
                f"expected floor(duration*samplerate) in {sorted(n_c)}",
            )
            return
        if shape[1] != st["ch"]:
            self.violate("C15", "C15:frames", f"{shape[1]} channels, file has {st['ch']}")
            return
        n = shape[0]
        data = _decode(reply["data"], (n, shape[1]))
        tentry = reply["coords"].get("time")
        if n and (tentry is None or "values" not in tentry):
            self.violate("C15", "C15:time-coord", "clip without a time coordinate")
            return
        tvals = _decode(tentry["values"]) if n else np.zeros(0)
        if tentry is None:
            tentry = {"n": 0, "step": None}
        ok_data = ok_time = False
        for o in sorted(o_c):
            want = np.zeros((n, st["ch"]))
            have = disk[o : o + n]
            want[: len(have)] = have.astype(np.float64) / float(1 << (st["vbits"] - 1))
            if self.same_samples(rec["file"], want, data, o):
                ok_data = True
                want_t = (o + np.arange(n)) / sr
                if n == 0 or np.all(
                    np.abs(tvals - want_t) <= 1e-9 * np.maximum(1.0, np.abs(want_t))
                ):
                    ok_time = True
                    break
        if not ok_data:
            self.violate(
                "C15", "C15:data",
                f"load_clip({start!r}, {end!r}) sr={sr} te={spec['time_expansion']} "
                f"file frames={len(disk)}: samples differ from file frames "
                f"{sorted(o_c)}..+{n} (zero-filled)",
            )
            return
        if not ok_time:
            self.violate(
                "C15", "C15:time-coord",
                f"load_clip({start!r}, {end!r}) sr={sr}: time coordinates are "
                f"not (offset+i)/samplerate; first={tvals[0]!r}",
            )
            return
        self.axis("load_clip", "time", tentry, None)
        self.arrays[op["h"]] = {
            "node": op["node"], "alive": True, "kind": "clip",
            "first": float(tvals[0]) if n else None,
            "step": tentry["step"], "n": n,
            "offset": o, "rec": op["r"], "data": data,
            "fp": self._fingerprint(reply),
        }
        # frame i equals the same frame of load_recording (where both exist)
        whole = rec.get("whole")
        if whole is not None and whole["version"] == st["version"]:
            part = whole["data"][o : o + n]
            if not np.array_equal(part, data[: len(part)]):
                self.violate(
                    "C15", "C15:clip-vs-recording",
                    "clip frames differ from the same frames of load_recording",
                )
            # "the same frame of load_recording" has to exist: with metadata
            # read from this very file (not stale, samplerate x time
            # expansion a whole number, so duration x samplerate is the
            # frame count up to rounding) load_recording covers every file
            # frame the clip covers
            reach_ = min(o + n, len(disk))
            if (
                rec.get("how") == "from_file"
                and not stale
                and float(st["sr"] * spec["time_expansion"]).is_integer()
                and len(whole["data"]) < reach_ - 1
            ):
                self.violate(
                    "C15", "C15:clip-vs-recording",
                    f"clip frames {o}..{reach_} are in the file but "
                    f"load_recording returned only {len(whole['data'])} frames",
                )
            self.probes.hit("C15:clip-vs-recording-compared")

    # ------------------------------------------------------- load_recording

    def do_load_recording(self, op):
        rec = self.recs.get(op["r"])
        if rec is None:
            return self.record(op, "skipped")
        st = self.afiles[rec["file"]]
        spec = rec["spec"]
        node = self.node(op["node"])
        try:
            reply = node.call(
                "a_load_recording", recording=spec, handle=op["h"],
                audio_dir=rec["audio_dir"],
                audio_as=op.get("audio_as", "str"),
                fresh=bool(op.get("fresh")),
                _env=self.env_audio(op.get("fault")),
            )
        except NodeCrashed:
            if "crash" not in (op.get("fault") or ""):
                raise HarnessError("node died in load_recording without an injected crash") from None
            self.restart(op["node"])
            self.faults_fired.hit(op["fault"])
            self.record(op, "crashed")
            self.trace.append(("load_recording", "crashed"))
            return
        self.note_fault(op, reply)
        if reply["outcome"] == "refused":
            self.record(op, f"refused:{reply.get('exc')}")
            self.trace.append(("load_recording", "refused"))
            self.probes.hit("world:construction-refused")
            return
        fired = bool(reply.get("_fault_fired"))
        disk = self.on_disk(rec["file"])
        outcome = reply["outcome"]
        oclass = outcome if outcome != "raised" else f"raised:{reply['exc']}"
        self.record(op, oclass, fired=fired,
                    data=sha(reply["data"]) if outcome == "value" else None)
        self.trace.append(("load_recording", oclass, disk is None))
        if disk is None or fired:
            return
        if outcome != "value":
            # no array was produced, so the statement makes no claim (stale
            # metadata, non-integer samplerate*time_expansion): only counted
            self.probes.hit(f"C15:load_recording-{oclass}")
            return
        self.checked_arrays += 1
        self.probes.hit("C15:load_recording-checked")
        shape = reply["shape"]
        data = _decode(reply["data"], tuple(shape))
        # The statement fixes no frame count for load_recording (with stale
        # metadata a whole-file read and a read of `duration` seconds differ
        # and both are legitimate); what it fixes through load_clip is the
        # content: frame j is the file's frame j, zero past the end of file.
        if len(shape) != 2 or reply["dims"] != ["time", "channel"] or shape[1] != st["ch"]:
            self.violate(
                "C15", "C15:frames",
                f"load_recording: dims {reply['dims']} shape {shape}, file has "
                f"{st['ch']} channels",
            )
            return
        want = np.zeros((shape[0], st["ch"]))
        have = disk[: shape[0]]
        want[: len(have)] = have.astype(np.float64) / float(1 << (st["vbits"] - 1))
        if shape[0] != len(disk):
            self.probes.hit("C15:load_recording-length-differs-from-file")
        if not self.same_samples(rec["file"], want, data, 0):
            self.violate(
                "C15", "C15:data",
                f"load_recording returned shape {shape}, file holds "
                f"{len(disk)} frames: frame j is not the file's frame j "
                f"(zero past the end of file)",
            )
            return
        entry = reply["coords"].get("time")
        if entry is None:
            if shape[0]:
                self.violate("C15", "C15:time-coord",
                             "load_recording: no time coordinate")
            entry = {"n": 0, "step": None}
        self.axis("load_recording", "time", entry, 0.0)
        if entry["n"]:
            tvals = _decode(entry["values"])
            want_t = np.arange(entry["n"]) / spec["samplerate"]
            if not np.all(np.abs(tvals - want_t) <= 1e-9 * np.maximum(1.0, want_t)):
                self.violate(
                    "C15", "C15:time-coord",
                    "load_recording: frame i does not carry time i/samplerate",
                )
        rec["whole"] = {"version": st["version"], "data": data, "h": op["h"]}
        self.arrays[op["h"]] = {
            "node": op["node"], "alive": True, "kind": "recording",
            "first": 0.0 if shape[0] else None, "step": entry["step"],
            "n": shape[0], "fp": self._fingerprint(reply),
        }

    def do_recheck(self, op):
        """An array an earlier call returned is looked at again after other
        library calls used it as input: its axis must still tell the truth and
        it must still be the array that was returned."""
        src = self.arrays.get(op["src"])
        if src is None or not src["alive"] or src.get("scribbled"):
            return self.record(op, "skipped")
        node = self.node(src["node"])
        reply = node.call("a_again", handle=op["src"], _env=self.env_audio(None))
        if reply["outcome"] != "value":
            return self.record(op, "skipped")
        entry = reply["coords"].get("time") or {"n": 0, "step": None}
        fp = self._fingerprint(reply)
        self.record(op, "value", same=(fp == src.get("fp")))
        self.trace.append(("recheck", src["kind"], fp == src.get("fp")))
        self.checked_arrays += 1
        self.probes.hit("C15:earlier-array-rechecked")
        self.axis(f"{src['kind']}-later", "time", entry, src["first"])
        if src.get("fp") is not None and fp != src["fp"]:
            self.violate(
                "C15", f"C15:array-changed-after-the-fact:{src['kind']}",
                f"the {src['kind']} array returned earlier now has step "
                f"{entry['step']!r} / different coordinates or samples, "
                f"although the caller never modified it",
            )

    @staticmethod
    def _fingerprint(reply):
        entry = reply["coords"].get("time", {})
        return sha(jdump([entry.get("step"), entry.get("values"),
                          reply.get("data") if "data" in reply else None,
                          reply.get("shape")]))

    def do_chain(self, op):
        """A batch job: clip -> spectrogram for several windows, nothing kept
        between iterations. Each spectrogram's time axis must start where its
        own clip starts."""
        rec = self.recs.get(op["r"])
        if rec is None:
            return self.record(op, "skipped")
        spec = rec["spec"]
        sr = spec["samplerate"]
        if sr < 1 or self.on_disk(rec["file"]) is None:
            return self.record(op, "skipped")
        node = self.node(op["node"])
        reply = node.call(
            "a_chain", recording=spec, windows=op["windows"],
            window_size=op["window_samples"] / sr,
            hop_size=op["hop_samples"] / sr,
            audio_dir=rec["audio_dir"], _env=self.env_audio(None),
        )
        if reply["outcome"] != "value":
            return self.record(op, reply["outcome"])
        outcomes = []
        for item in reply["items"]:
            outcomes.append(item["outcome"])
            if item["outcome"] != "value":
                continue
            wav_t = item["wav"]["coords"].get("time")
            spec_t = item["spec"]["coords"].get("time")
            if not wav_t or not spec_t or not wav_t["n"] or not spec_t["n"]:
                continue
            first = float(_decode(wav_t["values"])[0])
            self.checked_arrays += 1
            self.probes.hit("C15:batch-clip-then-spectrogram-checked")
            self.axis("spectrogram", "time", spec_t, first)
            if item["spec"]["coords"].get("frequency"):
                self.axis("spectrogram", "frequency",
                          item["spec"]["coords"]["frequency"], 0.0)
        self.record(op, jdump(outcomes))
        self.trace.append(("chain", tuple(outcomes)))

    def do_scribble(self, op):
        """A caller normalises / overwrites in place what an earlier call
        returned; later loads must still return the file's frames."""
        src = self.arrays.get(op["src"])
        if src is None or not src["alive"]:
            return self.record(op, "skipped")
        node = self.node(src["node"])
        reply = node.call("a_scribble", handle=op["src"], _env=self.env_audio(None))
        self.record(op, reply["outcome"])
        self.trace.append(("scribble", src["kind"], reply["outcome"]))
        if reply["outcome"] == "ack":
            src["scribbled"] = True
            self.probes.hit("C15:returned-array-modified-in-place")
            for rec in self.recs.values():
                whole = rec.get("whole")
                if whole is not None and whole.get("h") == op["src"]:
                    rec["whole"] = None  # our copy is independent, but be exact

    # --------------------------------------------------- resample, spectrogram

    def do_derive(self, op):
        src = self.arrays.get(op["src"])
        if src is None or not src["alive"] or not src["n"]:
            return self.record(op, "skipped")
        node = self.node(src["node"])
        kind = op["op"]
        if kind == "resample" and (
            src["n"] * op["target"] * src["step"] > 150_000
            or src["n"] * op["target"] * src["step"] * src.get("width", 1) > 1_500_000
        ):
            return self.record(op, "skipped-too-large")
        if kind == "spectrogram" and (
            src["n"] / max(op["hop_samples"], 1e-9)
            * (op["window_samples"] / 2 + 1) * src.get("width", 4) > 3_000_000
        ):
            return self.record(op, "skipped-too-large")
        if kind == "spectrogram" and src.get("spec_like"):
            # a spectrogram of a spectrogram is not a thing
            return self.record(op, "skipped")
        if kind == "resample":
            reply = node.call(
                "a_resample", source=op["src"],
                target_samplerate=op["target"], handle=op["h"],
                transpose=bool(op.get("transpose")),
                _env=self.env_audio(None),
            )
        else:
            sr = 1.0 / src["step"]
            reply = node.call(
                "a_spectrogram", source=op["src"],
                window_size=op["window_samples"] / sr,
                hop_size=op["hop_samples"] / sr, handle=op["h"],
                _env=self.env_audio(None),
            )
        outcome = reply["outcome"]
        oclass = outcome if outcome != "raised" else f"raised:{reply['exc']}"
        self.record(op, oclass, shape=reply.get("shape"))
        frac = kind == "spectrogram" and (
            op["window_samples"] != int(op["window_samples"])
            or op["hop_samples"] != int(op["hop_samples"])
        )
        self.trace.append((kind, oclass, frac, src["kind"]))
        if outcome != "value":
            self.probes.hit(f"C15:{kind}-{oclass}")
            return
        self.checked_arrays += 1
        self.probes.hit("C15:derived-array-checked")
        self.probes.hit(f"C15:{kind}-checked")
        if kind == "resample" and (src.get("spec_like") or op.get("transpose")):
            self.probes.hit("C15:resample-time-is-not-axis-0")
        if kind == "spectrogram" and op["hop_samples"] > op["window_samples"]:
            self.probes.hit("C15:spectrogram-hop-longer-than-window")
        if frac:
            self.probes.hit("C15:spectrogram-fractional-window-or-hop")
        if kind == "spectrogram" and op["window_samples"] >= 1024:
            self.probes.hit("C15:spectrogram-window>=1024-samples")
        tentry = reply["coords"].get("time") or {"n": 0, "step": None}
        self.axis(kind, "time", tentry, src["first"])
        if kind == "spectrogram" and reply["coords"].get("frequency"):
            self.axis(kind, "frequency", reply["coords"]["frequency"], 0.0)
        if tentry["n"] and "values" in tentry and tentry["step"]:
            self.arrays[op["h"]] = {
                "node": src["node"], "alive": True, "kind": kind,
                "first": float(_decode(tentry["values"])[0]),
                "step": tentry["step"], "n": tentry["n"],
                # spectrograms (and what is resampled from them) feed
                # resample again, never compute_spectrogram
                "spec_like": kind == "spectrogram" or bool(src.get("spec_like")),
                # elements per time step
                "width": int(np.prod(reply["shape"])) // max(1, tentry["n"]),
            }


# -------------------------------------------------------------- generation


def draw_run_cfg(rng, focus, tier):
    thorough = tier == "thorough"
    return {
        "focus": "C15",
        "n_nodes": rng.choice([1, 2, 3]),
        "max_ops": rng.choice([8, 12, 18] + ([30] if thorough else [])),
        "rates": rng.sample(SAMPLE_RATES, rng.randint(1, 4)),
        "max_frames": (
            # block / buffer size thresholds; rarely minutes of audio
            rng.choice([70_000, 140_000, 140_000, 1_200_000, 2_300_000])
            if rng.random() < (0.06 if thorough else 0.03)
            else rng.choice([40, 300, 1500] + ([4000] if thorough else []))
        ),
        "channels": rng.sample([1, 2, 3, 4], rng.randint(1, 3)),
        "tes": rng.sample(TIME_EXPANSIONS, rng.randint(1, 3)),
        "faults": rng.random() < 0.5,
        "file_faults": rng.random() < 0.7,
        "p_boundary": rng.choice([0.2, 0.5, 0.8]),
        "relative": rng.choice([False, False, True, "cwd"]),
        "bits": rng.choice([[16], [16], [16, 24, 32], [24], [32], [8, "f32"],
                            [16, 8, "f32"]]),
        "layouts": rng.choice([["plain"], ["plain"], ["plain", "list", "extensible"],
                               ["list"], ["extensible"]]),
    }


def gen_ops(rng, cfg, seed_tag):
    ops = []
    files = {}  # f -> (sr, frames) generator-side guess
    recs = {}  # r -> (f, rec_sr, duration)
    next_h = [0]
    arrays = []  # (h, node)

    def h():
        next_h[0] += 1
        return next_h[0] - 1

    def node():
        return rng.randrange(cfg["n_nodes"])

    def create(f=None):
        f = rng.randrange(len(AUDIO_FILES)) if f is None else f
        sr = rng.choice(cfg["rates"])
        frames = rng.choice([0, 1, 2, rng.randint(0, cfg["max_frames"]),
                             rng.randint(0, cfg["max_frames"])])
        long_file = frames > 300_000
        if is_flac(f):
            frames, sr = max(frames, 1), flac_rate(sr)
        ops.append({"op": "create", "f": f, "sr": sr,
                    "ch": 1 if long_file else rng.choice(cfg["channels"]),
                    "frames": frames, "salt": rng.randrange(1 << 16),
                    "bits": 16 if long_file else rng.choice(cfg["bits"]),
                    "layout": rng.choice(cfg.get("layouts", ["plain"]))})
        files[f] = [sr, frames]
        return f

    def recording(f):
        r = len(recs)
        te = rng.choice(cfg["tes"])
        sr, frames = files[f]
        if rng.random() < 0.6:
            ops.append({"op": "recording", "r": r, "f": f, "how": "from_file",
                        "te": te, "node": node(), "hash": rng.random() < 0.3,
                        "relative": cfg["relative"]})
            rec_sr = int(sr * te)
        else:
            # what from_file would say about the rate (a recording that
            # contradicts its file's header is outside the quantifier); the
            # duration may be off (stale or hand-written metadata)
            rec_sr = int(sr * te)
            if rec_sr < 1:
                te, rec_sr = 1.0, sr
            duration = (frames / rec_sr) * rng.choice([1.0, 1.0, 0.5, 2.0])
            ops.append({"op": "recording", "r": r, "f": f, "how": "manual",
                        "te": te, "samplerate": rec_sr, "duration": duration,
                        "relative": cfg["relative"]})
        recs[r] = (f, max(rec_sr, 1))
        return r

    def a_time(rec_sr, frames):
        """A time around [0, 1.3 * file length], on or off a sample boundary."""
        k = rng.choice([0, frames, max(frames - 1, 0), frames + 1,
                        rng.randint(0, int(frames * 1.3) + 2),
                        rng.randint(0, int(frames * 1.3) + 2)])
        if rng.random() < cfg["p_boundary"]:
            return k / rec_sr
        mode = rng.randint(0, 3)
        if mode == 0:
            return (k + rng.random()) / rec_sr
        if mode == 1:
            return round((k + rng.random()) / rec_sr, 6)
        if mode == 2:
            return math.nextafter(k / rec_sr, rng.choice([0.0, math.inf]))
        return max(0.0, (k + rng.choice([0.5, 0.999999, 1e-9])) / rec_sr)

    def load_clip(r, fault=None):
        f, rec_sr = recs[r]
        frames = files[f][1]
        a, b = a_time(rec_sr, frames), a_time(rec_sr, frames)
        if a > b:
            a, b = b, a
        if rng.random() < 0.1:
            b = a + rng.choice([0.0, 0.4 / rec_sr, 0.999 / rec_sr])
        if frames > 200_000:
            # long files: clips of bounded length, around the places where a
            # block-wise reader changes block (2**16, 2**18, 2**20 frames)
            edge = rng.choice([1 << 16, 1 << 18, 1 << 20, 1 << 20, 1 << 21, frames])
            a = max(0.0, (edge - rng.randint(0, 60_000)) / rec_sr)
            b = a + rng.randint(1, 120_000) / rec_sr
        hh = h()
        n = node()
        ops.append({"op": "load_clip", "r": r, "start": max(a, 0.0), "end": max(b, 0.0),
                    "node": n, "h": hh, "fault": fault,
                    "audio_as": rng.choice(["str", "path"]),
                    "fresh": rng.random() < 0.3})
        arrays.append((hh, n))
        return hh

    def load_recording(r, fault=None):
        if files[recs[r][0]][1] > 300_000:
            return load_clip(r, fault)  # minutes of audio are read in clips
        hh = h()
        n = node()
        ops.append({"op": "load_recording", "r": r, "node": n, "h": hh, "fault": fault,
                    "audio_as": rng.choice(["str", "path"]),
                    "fresh": rng.random() < 0.3})
        arrays.append((hh, n))
        return hh

    spec_like = set()

    def derive(src, rec_sr=None, max_window=256):
        hh = h()
        if src in spec_like or rng.random() < 0.4:
            if src in spec_like:
                spec_like.add(hh)
            if rec_sr and rng.random() < 0.7:
                ratio = rng.choice([0.5, 2.0, 1 / 3, 1.5, 0.9, 1.1, 0.25, 3.0])
                target = max(1, int(rec_sr * ratio))
            else:
                target = rng.choice([4000, 8000, 22050, 3, 96000, 11, 44100, 6000])
            ops.append({"op": "resample", "src": src, "h": hh, "target": target,
                        "transpose": rng.random() < 0.25})
            arrays.append((hh, None))
        else:
            if rng.random() < 0.5:
                # any whole number of samples, not only the round ones
                w = rng.randint(3, max(3, min(max_window, 10000)))
            else:
                w = rng.choice([w for w in [4, 8, 16, 32, 64, 100, 256, 37, 101, 113, 211,
                                            1024, 1102, 2205, 1315, 2048, 4096,
                                            4101, 8192]
                                if w <= max_window] or [4])
            whole = rng.random() < 0.5
            window = w if whole else w + rng.choice([0.5, 0.25, 0.9, 0.001])
            hop = rng.choice([1, 2, w // 4 or 1, w // 2, w])
            if w > 512:
                hop = max(hop, w // 8)
            if not whole or rng.random() < 0.3:
                hop = hop + rng.choice([0.5, 0.3, 0.75, 0.01])
            spec_like.add(hh)
            ops.append({"op": "spectrogram", "src": src, "h": hh,
                        "window_samples": window,
                        "hop_samples": (
                            hop + rng.choice([1, w // 2 or 1]) if rng.random() < 0.08
                            else min(hop, window)
                        )})
        return hh

    def afault():
        if cfg["faults"] and rng.random() < 0.3:
            return rng.choice(["sf_open_error", "sf_read_error",
                               "sf_open_crash", "sf_read_crash"])
        return None

    while len(ops) < cfg["max_ops"]:
        pat = rng.choice(["basic", "basic", "eof", "grow", "derived", "fault",
                          "restart", "tiny", "tear", "scribble", "tiles",
                          "chain"])
        if not files or rng.random() < 0.25:
            create()
        f = rng.choice(sorted(files))
        if not recs or rng.random() < 0.4:
            recording(f)
        r = rng.choice(sorted(recs))
        f = recs[r][0]
        if pat == "basic":
            load_clip(r, afault())
            if rng.random() < 0.4:
                load_recording(r)
        elif pat == "eof" and cfg["file_faults"]:
            ops.append({"op": "truncate", "f": f,
                        "permille": rng.choice([0, 100, 500, 900, 999, 1000]),
                        "extra_bytes": rng.choice([0, 1, 3])})
            files[f][1] = files[f][1] * ops[-1]["permille"] // 1000
            load_clip(r)
            load_clip(r)
            if rng.random() < 0.5:
                load_recording(r)
        elif pat == "grow" and cfg["file_faults"]:
            more = rng.randint(1, max(2, cfg["max_frames"] // 3))
            rewrite = rng.random() < 0.7
            ops.append({"op": "append", "f": f, "frames": more, "rewrite_header": rewrite})
            if rewrite:
                files[f][1] += more
            load_clip(r)
            if rng.random() < 0.5:
                recording(f)
        elif pat == "derived":
            f2, rec_sr = recs[r]
            frames = files[f2][1]
            # a clip past the end of a short file is zero-filled to its full
            # length, so long windows do not need long files
            length = rng.choice([24, 60, 150, 400, 400, 2500, 6000, 20000])
            if rng.random() < 0.7:
                # a window of known length that often crosses the end of file
                k0 = max(0, frames - rng.randint(0, length + length // 2))
                off = rng.choice([0.0, 0.0, 0.5, 0.25])
                hh = h()
                n = node()
                ops.append({"op": "load_clip", "r": r,
                            "start": (k0 + off) / rec_sr,
                            "end": (k0 + off + length) / rec_sr,
                            "node": n, "h": hh, "fault": None,
                            "audio_as": rng.choice(["str", "path"])})
                arrays.append((hh, n))
                src = hh
            else:
                src = load_recording(r)
                length = max(frames, 4)
            d = derive(src, rec_sr, max_window=max(4, length // 2))
            if rng.random() < 0.5:
                derive(d, None, max_window=max(4, length // 4))
            if rng.random() < 0.5:
                # the same source feeds a second derivation, and is looked
                # at again afterwards
                derive(src, rec_sr, max_window=max(4, length // 2))
            if rng.random() < 0.5:
                ops.append({"op": "recheck", "src": src})
        elif pat == "fault" and cfg["faults"]:
            load_clip(r, rng.choice(["sf_open_error", "sf_read_error",
                                     "sf_open_crash", "sf_read_crash"]))
            load_clip(r)
            if rng.random() < 0.5:
                load_recording(r)
        elif pat == "restart":
            ops.append({"op": "restart", "node": node()})
            load_clip(r)
        elif pat == "tiles":
            # back-to-back clips: each starts exactly where the previous one
            # ended (same float), boundaries mostly off the sample grid
            f2, rec_sr = recs[r]
            frames = files[f2][1]
            n = node()
            t = a_time(rec_sr, max(frames // 2, 1))
            for _ in range(rng.randint(2, 4)):
                step = rng.choice([rng.random() * 40 + 0.3, rng.randint(1, 30) + 0.5,
                                   rng.randint(1, 30), 0.7]) / rec_sr
                hh = h()
                ops.append({"op": "load_clip", "r": r, "start": t, "end": t + step,
                            "node": n, "h": hh, "fault": None, "audio_as": "str"})
                arrays.append((hh, n))
                t = t + step
        elif pat == "chain":
            f2, rec_sr = recs[r]
            frames = max(files[f2][1], 64)
            length = rng.choice([64, 200, 1000])
            w = rng.choice([8, 16, 32, 37])
            windows = []
            for _ in range(rng.randint(3, 8)):
                k0 = rng.randint(0, frames)
                windows.append([k0 / rec_sr, (k0 + length) / rec_sr])
            ops.append({"op": "chain", "r": r, "node": node(), "windows": windows,
                        "window_samples": w, "hop_samples": rng.choice([w // 2, w // 4 or 1])})
        elif pat == "scribble":
            # load, modify the returned array in place, load the same again
            n = node()
            first = load_clip(r) if rng.random() < 0.6 else load_recording(r)
            ops[-1]["node"] = n
            ops.append({"op": "scribble", "src": first})
            again = dict(ops[-2], h=h())
            ops.append(again)
            if rng.random() < 0.5:
                load_recording(r)
                ops[-1]["node"] = n
        elif pat == "tiny":
            f2, rec_sr = recs[r]
            k = rng.randint(0, files[f2][1] + 2)
            a = k / rec_sr
            hh = h()
            n = node()
            ops.append({"op": "load_clip", "r": r, "start": a,
                        "end": a + rng.choice([0.0, 0.3, 0.999, 1.0, 1.5]) / rec_sr,
                        "node": n, "h": hh, "fault": None, "audio_as": "str"})
        elif pat == "tear" and cfg["file_faults"] and rng.random() < 0.3:
            ops.append({"op": "tear_header", "f": f, "keep": rng.choice([0, 12, 30, 43])})
            load_clip(r)
            create(f)
            recording(f)
    return ops


def brief(op):
    return dict(op)


def prune_candidates(spec):
    return iter(())


SIM = AudioSim
SIMPLIFY = {"fault": None, "audio_as": "str", "relative": False, "hash": False,
            "transpose": False, "layout": "plain"}
NONTRIVIAL_RULE = {
    "C15": "run with >=1 fully checked load_clip whose window crosses or lies "
    "past the file's current end, or whose recording metadata is stale "
    "(file changed after capture), plus >=1 derived array (resample / "
    "spectrogram) whose axes were checked; distinct = distinct abstract trace "
    "(sequence of (operation, EOF situation, outcome class, time expansion?, "
    "fault, channels / fractional window?))",
}
STATES_MEASURE = (
    "not meaningful for this world beyond file status; distinct abstract "
    "traces are the reach measure"
)
REAL_VS_STUB = {
    "real": [
        "soundevent.audio (load_clip, load_recording, resample, "
        "compute_spectrogram), soundevent.arrays, Recording.from_file / "
        "media_info, soundfile + libsndfile on real files, numpy, scipy, "
        "xarray, tmpfs as the disk, node processes",
    ],
    "stub": [
        "audio files are written by the scheduler (hand-built RIFF header + "
        "PCM-16 payload) so header and payload can disagree and the file can "
        "change between metadata capture and read",
        "open / read errors injected through the module-global `sf` of "
        "soundevent.audio.io (subclass of soundfile.SoundFile)",
    ],
}
ASSUMPTIONS = [
    "sampling, not proof",
    "file model: whole frames visible to a reader = min(header frames, "
    "payload bytes // block align) (measured against libsndfile 1.2.2); "
    "PCM 16 / 24 / 32 bit, sample value / 2^(bits-1) is the expected float",
    "where float and exact-rational evaluation of floor(start*samplerate) / "
    "floor(duration*samplerate) disagree, either is accepted and the case is "
    "counted as ambiguous",
    "a call that produces no array (load_recording with stale metadata, "
    "scipy refusing a window) makes no claim and is only counted",
    "short reads into libsndfile, pre-emption inside a call and concurrent "
    "callers are not simulated (DESIGN 3.2)",
]
# advisory: whether they can be hit depends on the library under test (does
# it pass through the soundfile seam, may a returned array be written to)
SEAM_PROBES = {
    "C15": ["sf_open_error", "sf_read_error", "sf_open_crash", "sf_read_crash",
            "C15:returned-array-modified-in-place",
            "C15:clip-vs-recording-compared",
            # counted only when the call returns an array
            "C15:spectrogram-fractional-window-or-hop",
            "C15:spectrogram-window>=1024-samples",
            "C15:resample-checked", "C15:spectrogram-checked",
            "C15:load_recording-checked"],
}
CORE_PROBES = {
    "C15": [
        "C15:clip-crosses-eof",
        "C15:clip-past-eof",
        "C15:clip-zero-frames",
        "C15:clip-inside",
        "C15:clip-stale-metadata",
        "C15:clip-time-expansion",
        "C15:clip-start-off-boundary",
        "C15:clip-path-relative-to-working-directory",
        "C15:load_recording-checked",
        "C15:resample-checked",
        "C15:spectrogram-checked",
        "C15:spectrogram-fractional-window-or-hop",
        "C15:spectrogram-window>=1024-samples",
        "C15:clip-vs-recording-compared",
        "C15:returned-array-modified-in-place",
        "C15:earlier-array-rechecked",
        "C15:clip-starts-exactly-where-previous-ended",
        "file:>=65536-frames",
        "file:truncated-payload",
        "file:grown",
        "file:grown-header-stale",
        "file:torn-header",
        "sf_open_error",
        "sf_read_error",
        "sf_open_crash",
        "sf_read_crash",
    ],
}
