"""Seeds, event log, violation and error types, exit codes."""

from __future__ import annotations

import hashlib
import json
import random

EXIT_OK = 0
EXIT_VIOLATION = 1
EXIT_HARNESS = 2


def derive_int(*parts) -> int:
    """A 64-bit integer that is a pure function of the parts (no hash seed)."""
    text = "\x1f".join(str(p) for p in parts)
    return int.from_bytes(hashlib.sha256(text.encode()).digest()[:8], "big")


def derive_rng(*parts) -> random.Random:
    return random.Random(derive_int(*parts))


def sha(data) -> str:
    if isinstance(data, str):
        data = data.encode("utf-8", "surrogatepass")
    return hashlib.sha256(data).hexdigest()


def jdump(obj) -> str:
    """Canonical JSON text (sorted keys, no whitespace variance)."""
    return json.dumps(obj, sort_keys=True, ensure_ascii=False, allow_nan=True)


class Violation(Exception):
    """A property was observed to be false on the real code."""

    def __init__(self, prop: str, cls: str, detail: str = ""):
        super().__init__(f"{prop} {cls} {detail}")
        self.prop = prop
        self.cls = cls  # value-free class, e.g. C01:field:recordings[].license
        self.detail = detail

    def as_dict(self):
        return {"property": self.prop, "class": self.cls, "detail": self.detail}


class HarnessError(Exception):
    """The simulator itself misbehaved (never reported as a violation)."""


class EventLog:
    """Per-run log; its digest is the run's fingerprint.

    Logging never draws from a PRNG and never reads a real clock.
    """

    def __init__(self):
        self.entries = []
        self._h = hashlib.sha256()

    def add(self, entry: dict):
        self.entries.append(entry)
        self._h.update(jdump(entry).encode("utf-8", "surrogatepass"))
        self._h.update(b"\n")

    def digest(self) -> str:
        return self._h.hexdigest()


class Counter(dict):
    """Probe / fault counters that add up across runs and workers."""

    def hit(self, key, n=1):
        self[key] = self.get(key, 0) + n

    def merge(self, other):
        for k, v in other.items():
            self[k] = self.get(k, 0) + v
