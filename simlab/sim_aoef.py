"""Simulated world for C01 / C02 / C18: histories of save / load on nodes.

``AoefSim.apply(op)`` executes one concrete operation (a JSON dict) against
real soundevent code running in node processes, updates the reference model
and evaluates the oracles of the active properties. ``gen_ops`` draws a whole
operation-and-fault list from one PRNG; execution is a pure function of that
list, so the list is the replay file.
"""

from __future__ import annotations

import datetime as dt
import json
import os
import shutil

from . import aoefdoc, specs
from .canontools import (
    canon_diffs,
    is_inside,
    norm_dir,
    recording_uuid,
    recordings_of,
    remap,
    stored_path,
)
from .core import Counter, EventLog, HarnessError, Violation, jdump, sha
from .nodes import NodeCrashed

FILES = [
    "a.json",
    "b.json",
    "deep/er/c.json",
    "ünï dir/d e.json",
    "deep/f.json",
    # same stem up to the first dot, same directory
    "deep/set.v1.json",
    "deep/set.v2.json",
    # names that do not end in ".json" are not generated: aoef.load refuses
    # them by design ("Invalid file type"), so they are not AOEF files in the
    # statement's sense
]

WRITE_FAULTS = [
    "mkdir_enospc",
    "open_eio",
    "write_enospc",
    "write_eio_after",
    "crash_before_mkdir",
    "crash_after_mkdir",
    "crash_before_open",
    "crash_after_bytes",
    "crash_after_write",
]
# fire only if save moves a file into place (it does not today)
RENAME_FAULTS = ["rename_eio", "crash_before_rename", "crash_after_rename"]
READ_FAULTS = ["read_eio"]
CRASH_KINDS = {k for k in WRITE_FAULTS + RENAME_FAULTS if k.startswith("crash")}

COLLECTION_TYPE = {
    "RecordingSet": "recording_set",
    "Dataset": "dataset",
    "AnnotationSet": "annotation_set",
    "AnnotationProject": "annotation_project",
    "EvaluationSet": "evaluation_set",
    "PredictionSet": "prediction_set",
    "ModelRun": "model_run",
    "Evaluation": "evaluation",
}


class AoefSim:
    flavour = "aoef"

    def __init__(self, template, run_dir: str, props, seed_tag: int = 0):
        self.template = template
        self.run_dir = run_dir
        self.props = set(props)
        self.seed_tag = seed_tag
        self.nodes: dict = {}
        self.node_worlds: dict = {}
        self.node_epoch: dict = {}
        self.worlds: dict = {}
        self.files: dict = {}
        self.handles: dict = {}
        # The simulated wall clock runs ahead of the machine's: file
        # timestamps come from the real kernel clock, and a "how old is this
        # lock file" test that mixes the two must see old files (the writer
        # that left them is dead), never files from the future.
        self.now = dt.datetime(2040, 1, 1) + dt.timedelta(
            seconds=seed_tag % 100_000_000
        )
        self.log = EventLog()
        self.probes = Counter()
        self.faults_fired = Counter()
        self.i = 0
        self.trace = []  # abstract trace (kind, role, fault, outcome)
        self.checked_loads = 0
        self.refused = 0
        self.checked_docs = 0
        self.max_kinds = 0
        self.sim_span = [self.now, self.now]
        self.states = set()
        self.skew = {}  # node -> seconds its clock is off
        self.memdocs = {}  # in-memory AOEF documents kept by a node
        self.locales = {}  # node -> LC_CTYPE of that "machine"
        self.zones = {}  # node -> TZ of that "machine"
        self.known = []
        self.known_hits = Counter()
        os.makedirs(run_dir, exist_ok=True)
        # a real symbolic link below the relative audio root "rel/aud" (nodes
        # work in the run directory): rel/aud/latest -> 2023. A recording at
        # rel/aud/latest/x.wav is, lexically, latest/x.wav relative to the root
        # ... and the relative root is itself reached through a link (a data
        # disk mounted elsewhere): rel -> rel.real. Lexically nothing changes;
        # code that resolves one side and not the other sees two directories
        try:
            os.makedirs(os.path.join(run_dir, "rel.real", "aud", "2023"), exist_ok=True)
            os.symlink("rel.real", os.path.join(run_dir, "rel"))
            os.symlink("2023", os.path.join(run_dir, "rel.real", "aud", "latest"))
        except OSError:
            pass

    # ------------------------------------------------------------ plumbing

    def close(self):
        for node in self.nodes.values():
            node.close()
        self.nodes.clear()
        shutil.rmtree(self.run_dir, ignore_errors=True)

    def node(self, n: int):
        node = self.nodes.get(n)
        if node is None or not node.alive:
            node = self.template.spawn(f"n{n}")
            self.nodes[n] = node
            self.node_worlds[n] = set()
            self.node_epoch[n] = self.node_epoch.get(n, 0) + 1
        return node

    def restart(self, n: int):
        node = self.nodes.pop(n, None)
        if node is not None:
            node.close()
        for handle in self.handles.values():
            if handle["node"] == n:
                handle["alive"] = False

    def env(self, fault=None, node=None):
        self.now += dt.timedelta(seconds=1)
        self.sim_span[0] = min(self.sim_span[0], self.now)
        self.sim_span[1] = max(self.sim_span[1], self.now)
        local = self.now + dt.timedelta(seconds=self.skew.get(node, 0))
        return {
            "locale": self.locales.get(node, "C.utf8"),
            "tz": self.zones.get(node, "UTC"),
            "clock": local.isoformat(),
            "uuid_stream": (self.seed_tag + self.i) & 0xFFFF,
            "fault": fault,
            "root": self.run_dir,
        }

    def abspath(self, p: int) -> str:
        return os.path.join(self.run_dir, FILES[p % len(FILES)])

    def read_bytes(self, p: int):
        try:
            with open(self.abspath(p), "rb") as fp:
                return fp.read()
        except FileNotFoundError:
            return None

    def active(self, prop: str) -> bool:
        return prop in self.props

    def violate(self, prop, cls, detail):
        if prop not in self.props:
            self.probes.hit(f"other-property-observation:{prop}")
            return
        for finding in self.known:
            if finding["class"] == cls:
                # a listed finding does not stop the search; any other
                # violation of the same property is still reported
                self.known_hits.hit(finding["id"])
                return
        raise Violation(prop, cls, detail)

    def finish(self):
        pass

    def sim_seconds(self) -> float:
        return (self.sim_span[1] - self.sim_span[0]).total_seconds()

    def checked(self) -> int:
        return self.checked_loads + self.checked_docs

    def state_keys(self):
        return self.states

    def _note_state(self):
        files = tuple(
            sorted(
                (p, e["status"], e.get("type"), bool(e.get("audio")),
                 min(e.get("cycles", 0), 3))
                for p, e in self.files.items()
            )
        )
        alive = sum(1 for h in self.handles.values() if h["alive"])
        nodes = tuple(sorted(n for n, nd in self.nodes.items() if nd.alive))
        self.states.add(sha(jdump([files, min(alive, 4), nodes]))[:12])

    def nontrivial(self, prop) -> bool:
        pr = self.probes
        if prop == "C01":
            fresh = pr.get("load:checked:other-node", 0) + pr.get(
                "load:checked:same-node-after-restart", 0
            )
            return fresh >= 1 and self.max_kinds >= 4
        if prop == "C02":
            return pr.get("C02:doc-with>=5-lists", 0) >= 1
        if prop == "C18":
            return (
                pr.get("C18:relocated>=2-recordings", 0) >= 1
                or pr.get("C18:rejected-save-compared", 0) >= 1
            )
        return False

    def record(self, op, outcome, **extra):
        entry = {"i": self.i, "t": self.now.isoformat(), "op": _brief(op)}
        entry["outcome"] = outcome
        entry.update(extra)
        self.log.add(entry)

    # --------------------------------------------------------------- apply

    def apply(self, op: dict):
        try:
            self._apply(op)
        finally:
            self._note_state()

    def _apply(self, op: dict):
        self.i += 1
        kind = op["op"]
        if kind == "world":
            self.worlds[op["k"]] = op["spec"]
            self.max_kinds = max(
                self.max_kinds, specs.entity_kinds(op["spec"])
            )
            self.record(op, "ok", key=specs.spec_key(op["spec"]))
            self.trace.append(("world",))
            for probe in specs.reach_probes(op["spec"]):
                self.probes.hit(probe)
            if len(op["spec"].get("recordings", [])) >= 100:
                self.probes.hit("shape:bulk-world>=100-recordings")
        elif kind == "save":
            self.do_save(op)
        elif kind == "resave":
            self.do_save(op)
        elif kind == "load":
            self.do_load(op)
        elif kind == "touch":
            self.do_touch(op)
        elif kind == "edit":
            self.do_edit(op)
        elif kind in ("copy", "rename"):
            self.do_copy(op)
        elif kind == "merge":
            self.do_merge(op)
        elif kind == "mem_save":
            self.do_mem_save(op)
        elif kind == "mem_load":
            self.do_mem_load(op)
        elif kind == "restart":
            self.restart(op["node"])
            self.record(op, "ok")
            self.trace.append(("restart",))
            self.probes.hit("restart")
        elif kind == "tz":
            self.zones[op["node"]] = op["name"]
            self.record(op, "ok")
            self.trace.append(("tz", op["name"]))
            self.probes.hit("node-time-zone-set")
        elif kind == "locale":
            self.locales[op["node"]] = op["name"]
            self.record(op, "ok")
            self.trace.append(("locale", op["name"]))
            self.probes.hit(f"node-locale:{op['name']}")
        elif kind == "skew":
            self.skew[op["node"]] = op["seconds"]
            self.record(op, "ok")
            self.trace.append(("skew", op["seconds"] < 0))
            self.probes.hit("clock-skew-between-nodes")
        elif kind == "jump":
            self.now += dt.timedelta(seconds=op["seconds"])
            self.sim_span[0] = min(self.sim_span[0], self.now)
            self.sim_span[1] = max(self.sim_span[1], self.now)
            self.record(op, "ok")
            self.trace.append(("jump", op["seconds"] < 0))
            self.probes.hit("clock-jump-back" if op["seconds"] < 0 else "clock-jump")
        else:
            raise HarnessError(f"unknown op {kind}")

    def do_copy(self, op):
        """Another tool copies / renames a stored document (cp, mv, rsync)."""
        src, dst = op["src"] % len(FILES), op["dst"] % len(FILES)
        raw = self.read_bytes(src)
        if raw is None or src == dst:
            return self.record(op, "skipped")
        target = self.abspath(dst)
        os.makedirs(os.path.dirname(target), exist_ok=True)
        self._move_companions(self.abspath(src), target, op["op"] == "rename")
        if op["op"] == "rename":
            os.replace(self.abspath(src), target)
            self.files[dst] = self.files.pop(src, {"status": "absent"})
            self.files[src] = {"status": "absent"}
        else:
            with open(target, "wb") as fp:
                fp.write(raw)
            self.files[dst] = dict(self.files.get(src, {"status": "absent"}))
        self.record(op, "ok", doc=sha(raw))
        self.trace.append((op["op"], self.files[dst].get("status")))
        self.probes.hit(f"file:{op['op']}-by-another-tool")

    @staticmethod
    def _move_companions(source, target, move):
        """Whoever copies or moves a document takes along what the library
        put next to it: files named after the document or after its stem
        (`a.json.sha256`, `.a.json.lock`, `a.sha256`). Nothing else at the
        destination is touched -- what an earlier, killed save left there
        stays there."""
        sdir, sname = os.path.split(source)
        tdir, tname = os.path.split(target)
        sstem, tstem = os.path.splitext(sname)[0], os.path.splitext(tname)[0]
        try:
            names = sorted(os.listdir(sdir))
        except OSError:
            return
        for n in names:
            if n == sname or not os.path.isfile(os.path.join(sdir, n)):
                continue
            for old, new in ((sname, tname), ("." + sname, "." + tname),
                             (sstem + ".", tstem + "."),
                             ("." + sstem + ".", "." + tstem + ".")):
                if n.startswith(old):
                    with open(os.path.join(sdir, n), "rb") as fp:
                        data = fp.read()
                    with open(os.path.join(tdir, new + n[len(old):]), "wb") as fp:
                        fp.write(data)
                    if move:
                        os.unlink(os.path.join(sdir, n))
                    break

    # ------------------------------------------- in-memory documents (to_aeof)

    def do_mem_save(self, op):
        spec = self.worlds.get(op["k"])
        if spec is None:
            return self.record(op, "skipped")
        n = op["node"]
        node = self.node(n)
        key = specs.spec_key(spec)
        src = {"world": key, "root": op["root"]}
        if key not in self.node_worlds[n]:
            src["spec"] = spec
        described = node.call("describe", src=src)
        if described["outcome"] != "value":
            self.record(op, f"construction-refused:{described.get('exc')}")
            self.trace.append(("mem_save", "construction-refused"))
            self.probes.hit("world:construction-refused")
            self.refused += 1
            return
        self.node_worlds[n].add(key)
        src.pop("spec", None)
        audio = op.get("audio")
        paths = recordings_of(described["canon"])
        inside_all = audio is None or all(is_inside(q, audio) for q in paths.values())
        reply = node.call("mem_save", src=src, doc=op["d"], audio_dir=audio,
                          audio_as=op.get("audio_as", "str"), _env=self.env(None, n))
        oclass = reply["outcome"] if reply["outcome"] != "raised" else f"raised:{reply['exc']}"
        self.record(op, oclass, doc=sha(reply["text"]) if "text" in reply else None)
        self.trace.append(("mem_save", described["type"], oclass, bool(audio)))
        if not inside_all:
            if reply["outcome"] == "ack":
                self.violate("C18", "C18:outside-accepted",
                             f"to_aeof accepted a recording outside audio_dir={audio!r}")
            return
        if reply["outcome"] != "ack":
            self.inside_refused(node, src, audio, reply, described["type"], n)
            self.violate("C01", f"C01:save-raised:{reply.get('exc')}",
                         f"to_aeof of a valid {described['type']} raised: {reply.get('msg')}")
            return
        entry = {
            "status": "clean", "expect": described["canon"],
            "type": described["type"], "audio": audio,
            "reach": described["reach"], "cycles": 0, "node": n, "loads": 0,
        }
        self.memdocs[op["d"]] = entry
        self.probes.hit("mem:to_aeof")
        # (no document oracle here: the text of an in-memory document would
        # be the harness's dump of it, not something `save` wrote)

    def inside_refused(self, node, src, audio, reply, type_name, n, save_like=None):
        """A save with an audio directory raised although no fault fired and
        every recording lies inside that directory. If the same object is
        written the same way without an audio directory, the directory is
        what made it fail: saving with an audio directory must store relative paths, and
        may fail only for a recording outside it (C18)."""
        if audio is None or not self.active("C18"):
            return
        if save_like is not None:
            # like for like: the same call (same entry point, same spelling of
            # the target) to a scratch file nobody else looks at, so a save
            # that fails for a reason of its own fails here as well
            scratch = os.path.join(self.run_dir, "__probe", "probe.json")
            probe = node.call("save", src=src, path=scratch, audio_dir=None,
                              _env=self.env(None, n), **save_like)
            shutil.rmtree(os.path.dirname(scratch), ignore_errors=True)
        else:
            probe = node.call("mem_save", src=src, doc="__inside_refused_probe",
                              audio_dir=None, _env=self.env(None, n))
        self.probes.hit("C18:refused-save-retried-without-audio-dir")
        if probe["outcome"] == "ack":
            self.violate(
                "C18", "C18:inside-refused",
                f"{type_name} saved with audio_dir={audio!r} raised "
                f"{reply.get('exc')} ({reply.get('msg')}) although every "
                f"recording lies inside it and the same object is written "
                f"without an audio directory",
            )

    def do_mem_load(self, op):
        entry = self.memdocs.get(op["d"])
        if entry is None:
            return self.record(op, "skipped")
        n = entry["node"]
        node = self.nodes.get(n)
        if node is None or not node.alive:
            return self.record(op, "skipped")
        audio = op.get("audio")
        reply = node.call("mem_load", doc=op["d"], handle=op["h"], audio_dir=audio,
                          audio_as=op.get("audio_as", "str"), _env=self.env(None, n))
        if reply["outcome"] == "skipped":
            return self.record(op, "skipped")  # the node was restarted
        oclass = reply["outcome"] if reply["outcome"] != "raised" else f"raised:{reply['exc']}"
        self.record(op, oclass,
                    obj=sha(jdump(reply["canon"])) if reply["outcome"] == "value" else None)
        entry["loads"] += 1
        self.trace.append(("mem_load", entry["type"], oclass,
                           _reloc(entry["audio"], audio), min(entry["loads"], 3)))
        if reply["outcome"] != "value":
            self.violate("C01", f"C01:load-raised:{reply.get('exc')}",
                         f"to_soundevent of a document made by to_aeof raised: {reply.get('msg')}")
            return
        self.checked_loads += 1
        self.probes.hit("mem:to_soundevent-checked")
        if entry["loads"] >= 2:
            self.probes.hit("mem:same-document-loaded-again")
        self.handles[op["h"]] = {
            "node": n, "alive": True, "canon": reply["canon"],
            "type": reply["type"], "audio": audio, "cycles": 0,
        }
        expected = remap(entry["expect"], entry["audio"], audio)
        if self.active("C18"):
            self.check_loaded_paths(entry, audio, reply["canon"], expected)
        if self.active("C01"):
            for where, detail in canon_diffs(expected, reply["canon"]):
                self.violate(
                    "C01", f"C01:field:{where}",
                    f"{entry['type']} through to_aeof (audio_dir={entry['audio']!r}) "
                    f"and to_soundevent (audio_dir={audio!r}), load #{entry['loads']} "
                    f"of the same in-memory document: {detail}",
                )

    def do_merge(self, op):
        """A new collection assembled on a node from two loaded ones."""
        a = self.handles.get(op["h1"])
        b = self.handles.get(op["h2"])
        if (
            a is None or b is None or not a["alive"] or not b["alive"]
            or a["node"] != b["node"]
        ):
            return self.record(op, "skipped")
        node = self.node(a["node"])
        reply = node.call(
            "merge", first=op["h1"], second=op["h2"], handle=op["h"],
            cut=op["cut"], deep=op.get("deep", False),
        )
        self.record(op, reply["outcome"])
        self.trace.append(("merge", reply["outcome"], op.get("deep", False)))
        if reply["outcome"] != "value":
            return
        self.handles[op["h"]] = {
            "node": a["node"], "alive": True, "canon": reply["canon"],
            "type": reply["type"], "audio": a["audio"], "cycles": a["cycles"],
        }
        self.probes.hit("merge:collection-from-two-loaded-ones")

    def do_touch(self, op):
        """In-place edit of live objects a node already holds."""
        spec = self.worlds.get(op["k"])
        n = op["node"]
        node = self.nodes.get(n)
        if spec is None or node is None or not node.alive:
            return self.record(op, "skipped")
        key = specs.spec_key(spec)
        if key not in self.node_worlds.get(n, ()):
            return self.record(op, "skipped")
        reply = node.call("touch", world=key, seed=op["seed"])
        self.record(op, reply["outcome"], edits=reply.get("edits"))
        self.trace.append(("touch", len(reply.get("edits") or [])))
        if reply["outcome"] == "ack" and any(
            e != "refused" for e in reply.get("edits") or []
        ):
            self.probes.hit("touch:live-objects-edited-in-place")

    def do_edit(self, op):
        """In-place edit of a collection a node loaded earlier."""
        handle = self.handles.get(op["h"])
        if handle is None or not handle["alive"]:
            return self.record(op, "skipped")
        node = self.node(handle["node"])
        reply = node.call("edit_loaded", handle=op["h"], seed=op["seed"])
        self.record(op, reply["outcome"], edits=reply.get("edits"),
                    obj=sha(jdump(reply["canon"])) if "canon" in reply else None)
        self.trace.append(("edit", len(reply.get("edits") or [])))
        if reply["outcome"] == "inconsistent":
            handle["alive"] = False  # nothing further is claimed about it
            self.probes.hit("edit:left-one-identifier-with-two-contents")
        if reply["outcome"] == "ack":
            # new content: what is saved next starts a new history
            handle.update(canon=reply["canon"], cycles=0)
            if any(e != "refused" for e in reply.get("edits") or []):
                self.probes.hit("edit:loaded-objects-edited-in-place")

    # ---------------------------------------------------------------- save

    def do_save(self, op):
        if op["op"] == "resave":
            handle = self.handles.get(op["h"])
            if handle is None or not handle["alive"]:
                self.record(op, "skipped")
                return
            n = handle["node"]
            src = {"handle": op["h"]}
            origin = "loaded"
        else:
            spec = self.worlds.get(op["k"])
            if spec is None:
                self.record(op, "skipped")
                return
            n = op["node"]
            key = specs.spec_key(spec)
            src = {"world": key, "root": op["root"]}
            origin = "built"
        node = self.node(n)
        if origin == "built" and key not in self.node_worlds[n]:
            src["spec"] = spec
        described = node.call("describe", src=src)
        if described["outcome"] != "value":
            # the data classes refused the generated world: it is not an
            # input of save (C04 is the property about what may be refused)
            self.record(op, f"construction-refused:{described.get('exc')}")
            self.trace.append(("save", "construction-refused"))
            self.probes.hit("world:construction-refused")
            self.refused += 1
            return
        if origin == "built":
            if key in self.node_worlds[n]:
                self.probes.hit("save:same-live-objects-again")
            self.node_worlds[n].add(key)
            src.pop("spec", None)
        canon = described["canon"]
        paths = recordings_of(canon)
        audio = op.get("audio")
        inside_all = audio is None or all(
            is_inside(p, audio) for p in paths.values()
        )
        p = op["path"]
        before = self.read_bytes(p)
        entry_before = self.files.get(p, {"status": "absent"})
        fault = op.get("fault")
        crashed = False
        try:
            reply = node.call(
                "save",
                src=src,
                path=self.abspath(p),
                path_as=op.get("path_as", "str"),
                audio_dir=audio,
                audio_as=op.get("audio_as", "str"),
                api=op.get("api", "io"),
                _env=self.env(fault, n),
            )
        except NodeCrashed:
            if not fault or fault["kind"] not in CRASH_KINDS:
                raise HarnessError(
                    "node died during save without an injected crash"
                ) from None
            crashed = True
            reply = {"outcome": "crashed", "_fault_fired": True}
            self.restart(n)
        after = self.read_bytes(p)
        fired = bool(reply.get("_fault_fired"))
        if fired:
            self.faults_fired.hit(fault["kind"])
        outcome = reply["outcome"]
        oclass = outcome if outcome != "raised" else f"raised:{reply['exc']}"
        self.record(
            op,
            oclass,
            fired=fired,
            doc=sha(after) if after is not None else None,
            obj=sha(jdump(canon)),
        )
        self.trace.append(
            (
                op["op"],
                origin,
                described["type"],
                fault["kind"] if fault else None,
                oclass,
                "audio" if audio else "noaudio",
            )
        )
        self.probes.hit(f"save:{COLLECTION_TYPE.get(described['type'], '?')}")
        self.probes.hit(f"save:path-as-{op.get('path_as', 'str').split(':')[0]}")
        if ":" in op.get("path_as", ""):
            self.probes.hit("save:relative-to-changed-working-directory")
        if audio is not None:
            how, _, pos = op.get("audio_as", "str").partition(":")
            self.probes.hit(f"save:audio-as-{how}")
            if pos:
                self.probes.hit("save:audio-dir-positional")
        if after is not None and outcome == "ack" and len(after) >= 100_000:
            self.probes.hit("save:document>=100kB")
            if len(after) >= (1 << 20):
                self.probes.hit("save:document>=1MiB")
        if entry_before["status"] != "absent":
            self.probes.hit("save:overwrite")
            if (
                before is not None
                and after is not None
                and outcome == "ack"
                and len(after) < len(before)
            ):
                self.probes.hit("save:overwrite-with-shorter")
        if origin == "loaded":
            self.probes.hit("save:of-loaded-object")
        if entry_before.get("failed_before") and outcome == "ack":
            self.probes.hit("save:success-after-failed-save")

        new_entry = {
            "status": "clean",
            "expect": canon,
            "type": described["type"],
            "audio": audio,
            "reach": described["reach"],
            "cycles": (
                self.handles[op["h"]]["cycles"] + 1 if origin == "loaded" else 0
            ),
            "writer": (n, self.node_epoch[n]),
        }

        # ---- the save that must fail (C18)
        if not inside_all:
            self.probes.hit("save:recording-outside-audio-dir")
            if outcome == "ack":
                self.files[p] = new_entry
                self.violate(
                    "C18",
                    "C18:outside-accepted",
                    f"{described['type']} saved with audio_dir={audio!r} "
                    f"although a recording lies outside it: "
                    f"{[q for q in paths.values() if not is_inside(q, audio)][:2]}",
                )
                return
            if outcome == "raised" and not fired:
                self.probes.hit("C18:rejected-save-compared")
                if before != after:
                    self.files[p] = {"status": "torn"}
                    self.violate(
                        "C18",
                        "C18:failed-save-wrote",
                        f"save raised {reply['exc']} for an outside recording "
                        f"but the target file changed "
                        f"({_len(before)} -> {_len(after)} bytes)",
                    )
                return
            # a fault got there first; fall through to fault bookkeeping

        if outcome == "ack" and op.get("recheck_arg") and self.active("C01"):
            # the saved object is described again: whatever the caller holds
            # after the call is "the original" a later load is compared with,
            # so a save that edits its argument breaks the round trip under
            # one reading or the other
            again = node.call("describe", src=src)
            if again["outcome"] == "value":
                self.probes.hit("save:argument-described-again-after-save")
                for where, detail in canon_diffs(canon, again["canon"]):
                    self.violate(
                        "C01",
                        f"C01:save-modified-its-argument:{where}",
                        f"{described['type']} passed to save (audio_dir="
                        f"{audio!r}) is different afterwards: {detail}",
                    )
        if outcome == "ack":
            self.files[p] = new_entry
            if after is None:
                self.violate(
                    "C01",
                    "C01:save-wrote-nothing",
                    "save returned normally but the file does not exist",
                )
                return
            self.check_document(p, after, new_entry)
            return

        if outcome == "raised":
            if not fired:
                self.files[p] = (
                    entry_before if before == after else {"status": "torn"}
                )
                self.inside_refused(
                    node, src, audio, reply, described["type"], n,
                    save_like={"path_as": op.get("path_as", "str"),
                               "api": op.get("api", "io")},
                )
                self.violate(
                    "C01",
                    f"C01:save-raised:{reply['exc']}",
                    f"saving a valid {described['type']} raised: "
                    f"{reply.get('msg')}",
                )
                return
            kind = fault["kind"]
            if before == after:
                self.files[p] = dict(entry_before, failed_before=True)
            else:
                self.files[p] = {"status": "torn", "failed_before": True}
            self.probes.hit(f"save:failed-by-fault:{kind}")
            return

        if crashed:
            kind = fault["kind"]
            # The killed save was never acknowledged, so the properties say
            # nothing about what it left behind; what is at the path is
            # observed, not assumed. Unchanged content (a writer that goes
            # through a temporary file, a crash before the first byte) keeps
            # its old meaning; anything else -- partly written, completely
            # written but by how many write() calls or renames we cannot
            # know, or gone -- is a document nobody vouches for.
            if before == after:
                self.files[p] = dict(entry_before, failed_before=True)
            elif after is None:
                self.files[p] = {"status": "absent", "failed_before": True}
            else:
                self.files[p] = {"status": "torn", "failed_before": True}
                if kind in ("crash_after_write", "crash_after_rename"):
                    self.probes.hit("save:crash-after-complete-write")
            return

    def check_document(self, p, raw: bytes, entry):
        """Oracles over the text of a completely written document."""
        want_c02 = self.active("C02")
        want_c18 = self.active("C18")
        if not (want_c02 or want_c18):
            return
        try:
            # UTF-8, with or without a signature (a JSON reader may ignore a
            # byte order mark; the statement is about the references)
            doc = json.loads(raw.decode("utf-8-sig"))
        except (UnicodeDecodeError, ValueError) as err:
            self.probes.hit("doc:not-parseable")
            self.violate("C02", "C02:not-json", str(err)[:200])
            return
        if want_c02:
            self.checked_docs += 1
            analysis = aoefdoc.analyse(doc)
            problems = list(analysis["problems"])
            problems += aoefdoc.compare_with_reach(analysis, entry["reach"])
            problems += aoefdoc.uuid_net(doc, entry["reach"])
            nonempty = sum(
                1 for name in aoefdoc.TABLE if doc["data"].get(name)
            )
            if nonempty >= 5:
                self.probes.hit("C02:doc-with>=5-lists")
            if problems:
                cls, detail = problems[0]
                self.violate(
                    "C02",
                    cls,
                    f"{entry['type']} document: {detail} "
                    f"(+{len(problems) - 1} more)",
                )
        if want_c18:
            self.checked_docs += 1
            stored = aoefdoc.recording_paths(doc)
            expected = recordings_of(entry["expect"])
            for key, path in expected.items():
                ident = recording_uuid(key)
                want = stored_path(path, entry["audio"])
                have = stored.get(ident)
                if have != want:
                    self.violate(
                        "C18",
                        f"C18:stored-path:{COLLECTION_TYPE.get(entry['type'])}",
                        f"recording {ident}: path {path!r} saved with "
                        f"audio_dir={entry['audio']!r} stored as {have!r}, "
                        f"expected {want!r}",
                    )
            if entry["audio"] is not None and expected:
                self.probes.hit("C18:stored-relative-checked")

    # ---------------------------------------------------------------- load

    def do_load(self, op):
        p = op["path"]
        n = op["node"]
        entry = self.files.get(p, {"status": "absent"})
        node = self.node(n)
        fault = op.get("fault")
        audio = op.get("audio")
        type_arg = None
        if op.get("type_arg") and entry.get("type"):
            type_arg = COLLECTION_TYPE.get(entry["type"])
        try:
            reply = node.call(
                "load",
                path=self.abspath(p),
                handle=op["h"],
                path_as=op.get("path_as", "str"),
                audio_dir=audio,
                audio_as=op.get("audio_as", "str"),
                type_arg=type_arg,
                api=op.get("api", "io"),
                _env=self.env(fault, n),
            )
        except NodeCrashed:
            raise HarnessError("node died during load") from None
        fired = bool(reply.get("_fault_fired"))
        if fired:
            self.faults_fired.hit(fault["kind"])
        outcome = reply["outcome"]
        oclass = outcome if outcome != "raised" else f"raised:{reply['exc']}"
        role = "absent"
        if entry["status"] != "absent" and "writer" in entry:
            wn, wepoch = entry["writer"]
            if wn != n:
                role = "other-node"
            elif self.node_epoch.get(n) != wepoch:
                role = "same-node-after-restart"
            else:
                role = "same-node"
        self.record(
            op,
            oclass,
            fired=fired,
            status=entry["status"],
            obj=sha(jdump(reply["canon"])) if outcome == "value" else None,
            fallbacks=[reply.get("_now_calls"), reply.get("_uuid_calls")],
        )
        self.trace.append(
            (
                "load",
                role,
                entry["status"],
                fault["kind"] if fault else None,
                oclass,
                _reloc(entry.get("audio"), audio),
            )
        )
        if outcome == "value":
            self.handles[op["h"]] = {
                "node": n,
                "alive": True,
                "canon": reply["canon"],
                "type": reply["type"],
                "audio": audio,
                "cycles": entry.get("cycles", 0),
            }
        if entry["status"] == "absent":
            self.probes.hit("load:absent-file")
            return
        if entry["status"] == "torn":
            self.probes.hit(f"load:torn-file:{oclass}")
            return
        if fired:
            self.probes.hit("load:failed-by-fault")
            return

        # ---- a clean document: everything is checked
        if outcome != "value":
            self.violate(
                "C01",
                f"C01:load-raised:{reply['exc']}",
                f"loading a document written by an acknowledged save of a "
                f"{entry['type']} raised: {reply.get('msg')}",
            )
            if recordings_of(entry["expect"]):
                # "loading with an audio directory yields that directory
                # joined with the stored path": it yielded nothing
                self.violate(
                    "C18",
                    f"C18:load-raised:{reply['exc']}",
                    f"loading a {entry['type']} saved with audio_dir="
                    f"{entry.get('audio')!r} under audio_dir={audio!r} raised: "
                    f"{reply.get('msg')}",
                )
            return
        self.checked_loads += 1
        self.probes.hit(f"load:checked:{role}")
        self.probes.hit(f"load:checked:{COLLECTION_TYPE.get(entry['type'])}")
        if entry.get("cycles", 0) >= 1:
            self.probes.hit("load:checked:cycle>=2")
        if entry.get("cycles", 0) >= 2:
            self.probes.hit("load:checked:cycle>=3")
        if reply.get("_now_calls"):
            self.probes.hit("load:clock-fallback-used")
        if reply.get("_uuid_calls"):
            self.probes.hit("load:uuid-fallback-used")
        if reply["type"] != entry["type"]:
            self.violate(
                "C01",
                f"C01:type:{entry['type']}->{reply['type']}",
                "loaded object has a different collection type",
            )
            return
        expected = remap(entry["expect"], entry["audio"], audio)
        if self.active("C18"):
            self.check_loaded_paths(entry, audio, reply["canon"], expected)
        if self.active("C01"):
            # every difference is offered to violate(): a listed known
            # finding is skipped, the first unlisted one is reported
            for where, detail in canon_diffs(expected, reply["canon"]):
                which = "fixpoint" if entry.get("cycles", 0) else "field"
                self.violate(
                    "C01",
                    f"C01:{which}:{where}",
                    f"{entry['type']} saved (audio_dir={entry['audio']!r}) "
                    f"and loaded (audio_dir={audio!r}) on {role}: {detail}",
                )

    def check_loaded_paths(self, entry, audio, got, expected):
        want = {
            recording_uuid(k): v for k, v in recordings_of(expected).items()
        }
        have = {}
        for key, path in recordings_of(got).items():
            have.setdefault(recording_uuid(key), set()).add(path)
        ctype = COLLECTION_TYPE.get(entry["type"])
        for ident, path in want.items():
            if have.get(ident) != {path}:
                self.violate(
                    "C18",
                    f"C18:loaded-path:{ctype}",
                    f"recording {ident} saved under {entry['audio']!r} and "
                    f"loaded under {audio!r}: got {sorted(have.get(ident, []))}"
                    f", expected {path!r}",
                )
        if want:
            if entry["audio"] and audio and norm_dir(audio) != norm_dir(
                entry["audio"]
            ):
                self.probes.hit("C18:relocated-A-to-B")
                self.probes.hit(f"C18:relocated:{ctype}")
                if len(want) >= 2:
                    self.probes.hit("C18:relocated>=2-recordings")
            elif not entry["audio"] and not audio:
                self.probes.hit("C18:passthrough-checked")


def _reloc(a, b):
    if a is None and b is None:
        return "none"
    if a is None:
        return "load-only"
    if b is None:
        return "save-only"
    return "same" if norm_dir(a) == norm_dir(b) else "relocated"


def _len(data):
    return None if data is None else len(data)


def _brief(op):
    out = {k: v for k, v in op.items() if k != "spec"}
    if "spec" in op:
        out["spec_key"] = specs.spec_key(op["spec"])
        out["spec_shape"] = specs.shape_of(op["spec"])
    return out


brief = _brief


# -------------------------------------------------------------- generation


def draw_run_cfg(rng, focus: str, tier: str) -> dict:
    """Swarm configuration of one run."""
    thorough = tier == "thorough"
    cfg = {
        "focus": focus,
        "n_nodes": rng.choice([1, 2, 2, 3] + ([4] if thorough else [])),
        "max_ops": rng.choice([6, 10, 16] + ([28, 40] if thorough else [])),
        "fault_free": rng.random() < 0.4,
        "write_faults": [],
        "read_faults": [],
        "p_fault": rng.choice([0.1, 0.25, 0.5]),
        "spec": specs.draw_cfg(rng, focus, tier),
        "small_spec": None,
        "apis": rng.choice([["io"], ["io"], ["io", "aoef", "infer"]]),
        "p_type_arg": rng.choice([0.0, 0.3]),
    }
    if not cfg["fault_free"]:
        k = rng.randint(1, len(WRITE_FAULTS))
        cfg["write_faults"] = rng.sample(WRITE_FAULTS, k)
        if rng.random() < 0.3:
            cfg["write_faults"] += rng.sample(RENAME_FAULTS, rng.randint(1, 3))
        cfg["read_faults"] = READ_FAULTS if rng.random() < 0.5 else []
    small = dict(cfg["spec"])
    small.update(
        n_users=min(1, small["n_users"]),
        n_tags=min(1, small["n_tags"]),
        bulk=False,
        n_recordings=1,
        n_clips=1,
        n_sound_events=min(1, small["n_sound_events"]),
        n_sequences=0,
        n_per_clip=min(1, small["n_per_clip"]),
        p_opt=0.1,
    )
    cfg["small_spec"] = small
    return cfg


class _Gen:
    """Draws an operation list; mirrors just enough state to stay sensible."""

    def __init__(self, rng, cfg, seed_tag):
        self.rng = rng
        self.cfg = cfg
        self.seed_tag = seed_tag
        self.ops = []
        self.worlds = {}  # k -> (struct_seed, value_seed, spec_cfg_name)
        self.next_h = 0
        self.last_spec = {}
        self.next_d = 0
        self.saved = {}  # path -> audio dir used (gen-side guess)
        self.loaded = []  # (h, node, audio)

    # -- primitives

    def emit(self, op):
        self.ops.append(op)

    def node(self):
        return self.rng.randrange(self.cfg["n_nodes"])

    def other_node(self, n):
        if self.cfg["n_nodes"] == 1:
            return n
        return self.rng.choice([m for m in range(self.cfg["n_nodes"]) if m != n])

    def path(self):
        return self.rng.randrange(len(FILES))

    def how(self):
        return self.rng.choice(["str", "path"])

    def audio_how(self):
        # the audio directory by keyword or in its documented position
        return self.rng.choice(["str", "path", "str", "path",
                                "str:pos", "path:pos"])

    def path_how(self):
        return self.rng.choice(["str", "path", "str", "path", "rel",
                                "rel:deep", "rel:ünï dir"])

    def api(self):
        return self.rng.choice(self.cfg["apis"])

    def wfault(self, force=False):
        kinds = self.cfg["write_faults"]
        if kinds and (force or self.rng.random() < self.cfg["p_fault"]):
            return {
                "kind": self.rng.choice(kinds),
                "permille": self.rng.choice([0, 1, 500, 999, 1000]),
            }
        return None

    def rfault(self):
        kinds = self.cfg["read_faults"]
        if kinds and self.rng.random() < self.cfg["p_fault"] / 2:
            return {"kind": self.rng.choice(kinds)}
        return None

    def world(self, k, small=False, edit=False):
        """(Re)define world k."""
        if edit and k in self.worlds:
            struct_seed, value_seed, small = self.worlds[k]
            value_seed += 1
        else:
            struct_seed = f"{self.seed_tag}:{k}:{len(self.ops)}"
            value_seed = 0
        spec_cfg = self.cfg["small_spec"] if small else self.cfg["spec"]
        spec = specs.gen_world(struct_seed, value_seed, spec_cfg)
        previous = self.last_spec.get(k)
        if edit and previous is not None:
            if self.rng.random() < 0.5:
                # the collections keep their own identity (uuid and creation
                # time) and only their content changes
                for kind, root in spec["roots"].items():
                    old = previous["roots"][kind]
                    root["uuid"] = old["uuid"]
                    if "created_on" in old:
                        root["created_on"] = old["created_on"]
            if self.rng.random() < 0.4:
                # ... and membership changes too (an annotated clip more or
                # less), so what is reachable from the collection changes
                for root in spec["roots"].values():
                    for key in ("recordings", "clip_annotations",
                                "clip_predictions", "clip_evaluations"):
                        members = root.get(key)
                        if members and len(members) > 1 and self.rng.random() < 0.7:
                            del members[self.rng.randrange(len(members))]
        self.last_spec[k] = spec
        self.worlds[k] = (struct_seed, value_seed, small)
        self.emit({"op": "world", "k": k, "spec": spec})
        return spec

    def ensure_world(self, k=None):
        if k is None:
            k = self.rng.randrange(3)
        if k not in self.worlds:
            self.world(k)
        return k

    def root(self):
        return self.rng.choice(specs.ROOT_KINDS)

    def audio_for_save(self, k):
        focus = self.cfg["focus"]
        p_audio = 0.8 if focus == "C18" else 0.4
        if self.rng.random() >= p_audio:
            return None
        return self.cfg_root(k)

    def cfg_root(self, k):
        small = self.worlds[k][2]
        spec_cfg = self.cfg["small_spec"] if small else self.cfg["spec"]
        return self.spell_dir(spec_cfg["audio_root"])

    def spell_dir(self, root):
        """Another spelling of the same directory, now and then: a trailing
        separator, a doubled inner separator, a "." segment."""
        r = self.rng.random()
        if r < 0.1:
            return root + "/"
        if r < 0.2 and "/" in root[1:]:
            cut = self.rng.choice(
                [i for i, c in enumerate(root) if c == "/" and i > 0]
            )
            mid = self.rng.choice(["//", "/./"])
            return root[:cut] + mid + root[cut + 1:]
        return root

    def save(self, k, p=None, n=None, root=None, audio="auto", fault="auto"):
        p = self.path() if p is None else p
        n = self.node() if n is None else n
        if audio == "auto":
            audio = self.audio_for_save(k)
        op = {
            "op": "save",
            "k": k,
            "root": root or self.root(),
            "path": p,
            "node": n,
            "path_as": self.path_how(),
            "audio": audio,
            "audio_as": self.audio_how(),
            "api": self.api(),
            "fault": self.wfault() if fault == "auto" else fault,
            "recheck_arg": self.rng.random() < 0.25,
        }
        self.emit(op)
        self.saved[p] = audio
        return op

    def load(self, p, n=None, audio="auto", fault="auto"):
        n = self.node() if n is None else n
        if audio == "auto":
            saved_with = self.saved.get(p)
            focus = self.cfg["focus"]
            r = self.rng.random()
            if saved_with is None:
                audio = None if r < 0.8 else self.spell_dir(
                    self.rng.choice(specs.AUDIO_ROOTS))
            elif focus == "C18":
                audio = (
                    self.spell_dir(self.rng.choice(specs.AUDIO_ROOTS))
                    if r < 0.6
                    else (saved_with if r < 0.85 else None)
                )
            else:
                audio = (
                    saved_with
                    if r < 0.6
                    else (None if r < 0.8 else self.rng.choice(specs.AUDIO_ROOTS))
                )
        h = self.next_h
        self.next_h += 1
        op = {
            "op": "load",
            "path": p,
            "node": n,
            "h": h,
            "path_as": self.path_how(),
            "audio": audio,
            "audio_as": self.audio_how(),
            "api": self.api(),
            "type_arg": self.rng.random() < self.cfg["p_type_arg"],
            "fault": self.rfault() if fault == "auto" else fault,
        }
        self.emit(op)
        self.loaded.append((h, n, audio))
        return op

    def resave(self, h, audio, p=None, fault="auto"):
        p = self.path() if p is None else p
        op = {
            "op": "resave",
            "h": h,
            "path": p,
            "path_as": self.how(),
            "audio": audio,
            "audio_as": self.audio_how(),
            "api": self.api(),
            "fault": self.wfault() if fault == "auto" else fault,
        }
        self.emit(op)
        self.saved[p] = audio
        return op

    def jump(self):
        seconds = self.rng.choice(
            [0.001, 1, -1, 3600, -3600, 86400 * 30, -86400 * 30, 0.5]
        )
        self.emit({"op": "jump", "seconds": seconds})

    # -- macro patterns (expand to primitives; minimised as primitives)

    def pat_roundtrip(self):
        k = self.ensure_world()
        a = self.node()
        s = self.save(k, n=a)
        b = self.rng.choice([a, self.other_node(a), self.other_node(a)])
        self.load(s["path"], n=b)

    def pat_all_types(self):
        k = self.ensure_world()
        kinds = list(specs.ROOT_KINDS)
        self.rng.shuffle(kinds)
        for root in kinds[: self.rng.randint(2, 8)]:
            s = self.save(k, root=root)
            self.load(s["path"], n=self.other_node(s["node"]))

    def pat_overwrite(self):
        big = self.ensure_world(0)
        p = self.path()
        n = self.node()
        audio = self.audio_for_save(big)
        self.save(big, p=p, n=n, audio=audio, fault=None)
        self.world(1, small=True)
        self.save(1, p=p, n=self.rng.choice([n, self.other_node(n)]),
                  audio=self.audio_for_save(1), fault=None)
        self.load(p)

    def pat_stale(self):
        k = self.ensure_world()
        p, n = self.path(), self.node()
        root = self.root()
        audio = self.audio_for_save(k)
        self.save(k, p=p, n=n, root=root, audio=audio, fault=None)
        self.load(p, n=n, audio=audio)
        self.world(k, edit=True)
        self.save(k, p=p, n=n, root=root, audio=audio, fault=None)
        self.load(p, n=n, audio=audio)
        self.load(p, n=self.other_node(n), audio=audio)

    def pat_touch(self):
        """Save, edit the very same live objects in place, save again."""
        k = self.ensure_world()
        p, n = self.path(), self.node()
        root = self.root()
        audio = self.audio_for_save(k)
        self.save(k, p=p, n=n, root=root, audio=audio, fault=None)
        if self.rng.random() < 0.5:
            self.load(p, n=n, audio=audio)
        self.emit({"op": "touch", "k": k, "node": n,
                   "seed": self.rng.randrange(1 << 30)})
        p2 = self.rng.choice([p, self.path()])
        self.save(k, p=p2, n=n, root=self.rng.choice([root, self.root()]),
                  audio=audio, fault=None)
        self.load(p2, n=self.rng.choice([n, self.other_node(n)]), audio=audio)

    def pat_edit_loaded(self):
        """Load a collection, edit it in place, save it, load it again."""
        k = self.ensure_world()
        audio = self.audio_for_save(k)
        s = self.save(k, audio=audio, fault=None)
        n = self.node()
        ld = self.load(s["path"], n=n, audio=audio, fault=None)
        for _ in range(self.rng.randint(1, 2)):
            self.emit({"op": "edit", "h": ld["h"],
                       "seed": self.rng.randrange(1 << 30)})
            p = self.rng.choice([s["path"], self.path()])
            self.resave(ld["h"], audio=audio, p=p, fault=None)
            self.load(p, n=self.rng.choice([n, self.other_node(n)]),
                      audio=audio, fault=None)

    def pat_two_saves(self):
        a = self.ensure_world(0)
        b = self.ensure_world(1)
        n = self.node()
        self.save(a, n=n, fault=None)
        root = self.root()
        s = self.save(b, n=n, root=root)
        self.load(s["path"], n=self.other_node(n))

    def pat_fault_heal(self):
        k = self.ensure_world()
        p, n = self.path(), self.node()
        audio = self.audio_for_save(k)
        self.save(k, p=p, n=n, audio=audio, fault=self.wfault(force=True))
        self.save(k, p=p, n=self.rng.choice([n, self.other_node(n)]),
                  audio=audio, fault=None)
        self.load(p, audio=audio)

    def pat_crash_then_save(self):
        """A save is killed (or fails) half-way; later a different, usually
        smaller or edited, collection is saved to the same path and loaded."""
        k = self.ensure_world(0)
        p, n = self.path(), self.node()
        audio = self.audio_for_save(k)
        root = self.root()
        if self.rng.random() < 0.5:
            self.save(k, p=p, n=n, root=root, audio=audio, fault=None)
        self.save(k, p=p, n=n, root=root, audio=audio,
                  fault=self.wfault(force=True))
        if self.rng.random() < 0.5:
            self.world(k, edit=True)
            self.save(k, p=p, n=n, root=root, audio=audio, fault=None)
        else:
            self.world(1, small=True)
            self.save(1, p=p, n=self.rng.choice([n, self.other_node(n)]),
                      audio=self.audio_for_save(1), fault=None)
        self.load(p)

    def pat_cycle(self):
        k = self.ensure_world()
        audio = self.audio_for_save(k)
        s = self.save(k, audio=audio, fault=None)
        p, n = s["path"], self.node()
        for _ in range(self.rng.randint(1, 3)):
            ld = self.load(p, n=n, audio=audio, fault=None)
            p = self.path()
            self.resave(ld["h"], audio=audio, p=p, fault=None)
            n = self.rng.choice([n, self.other_node(n)])
        self.load(p, n=n, audio=audio)

    def pat_copy(self):
        """A document is copied / moved over another one by another tool."""
        a = self.ensure_world(0)
        b = self.ensure_world(1)
        n = self.node()
        p1, p2 = self.rng.sample(range(len(FILES)), 2)
        aud1, aud2 = self.audio_for_save(a), self.audio_for_save(b)
        self.save(a, p=p1, n=n, audio=aud1, fault=None)
        self.save(b, p=p2, n=self.rng.choice([n, self.other_node(n)]),
                  audio=aud2, fault=None)
        if self.rng.random() < 0.6:
            self.load(p2, n=n, audio=aud2)  # the target was read before
        self.emit({"op": self.rng.choice(["copy", "rename"]),
                   "src": p1, "dst": p2})
        self.saved[p2] = aud1
        self.load(p2, n=n, audio=aud1)
        self.load(p2, n=self.other_node(n), audio=aud1)

    def pat_merge(self):
        """Load the same document twice (or two copies of it) on one node and
        save a collection assembled from both results."""
        k = self.ensure_world()
        audio = self.audio_for_save(k)
        root = self.root()
        s1 = self.save(k, root=root, audio=audio, fault=None)
        n = self.node()
        l1 = self.load(s1["path"], n=n, audio=audio, fault=None)
        if self.rng.random() < 0.5:
            p2 = self.path()
            self.emit({"op": "copy", "src": s1["path"], "dst": p2})
            self.saved[p2] = audio
        else:
            p2 = s1["path"]
        l2 = self.load(p2, n=n, audio=audio, fault=None)
        h = self.next_h
        self.next_h += 1
        self.emit({"op": "merge", "h1": l1["h"], "h2": l2["h"], "h": h,
                   "cut": self.rng.randrange(8),
                   "deep": self.rng.random() < 0.3})
        self.loaded.append((h, n, audio))
        p3 = self.path()
        self.resave(h, audio=audio, p=p3, fault=None)
        self.load(p3, audio=audio)

    def pat_memdoc(self):
        """to_aeof once, to_soundevent several times on the same in-memory
        document, under different audio directories."""
        k = self.ensure_world()
        n = self.node()
        d = self.next_d
        self.next_d += 1
        audio = self.audio_for_save(k)
        self.emit({"op": "mem_save", "k": k, "root": self.root(), "node": n,
                   "d": d, "audio": audio, "audio_as": self.how()})
        for _ in range(self.rng.randint(1, 3)):
            h = self.next_h
            self.next_h += 1
            r = self.rng.random()
            load_audio = (
                audio if r < 0.4
                else (None if r < 0.6 else self.rng.choice(specs.AUDIO_ROOTS))
            ) if audio is not None else (
                None if r < 0.7 else self.rng.choice(specs.AUDIO_ROOTS)
            )
            self.emit({"op": "mem_load", "d": d, "h": h, "audio": load_audio,
                       "audio_as": self.how()})
            self.loaded.append((h, n, load_audio))

    def pat_restart(self):
        k = self.ensure_world()
        n = self.node()
        s = self.save(k, n=n)
        self.emit({"op": "restart", "node": n})
        self.load(s["path"], n=n)

    def pat_relocate(self):
        k = self.ensure_world()
        a = self.cfg_root(k)
        n1 = self.node()
        s = self.save(k, n=n1, audio=a, fault=None)
        b = self.rng.choice([r for r in specs.AUDIO_ROOTS if norm_dir(r) != norm_dir(a)])
        n2 = self.other_node(n1)
        ld = self.load(s["path"], n=n2, audio=b, fault=None)
        if self.rng.random() < 0.6:
            p2 = self.path()
            self.resave(ld["h"], audio=b, p=p2, fault=None)
            c = self.rng.choice(specs.AUDIO_ROOTS + [None])
            self.load(p2, audio=c)

    def pat_outside(self):
        """A save that must fail, over an existing or an absent target."""
        k = self.ensure_world()
        p = self.path()
        if self.rng.random() < 0.6:
            # something to protect; its own save may have crashed or failed
            self.save(k, p=p, audio=None,
                      fault=self.wfault() if self.rng.random() < 0.4 else None)
        wrong = self.rng.choice(
            [r for r in specs.AUDIO_ROOTS] + [self.cfg_root(k) + "2"]
        )
        self.save(k, p=p, audio=wrong, fault=None)
        self.load(p, audio=None)

    def pat_random(self):
        r = self.rng.random()
        if r < 0.35 or not self.saved:
            self.save(self.ensure_world())
        elif r < 0.7:
            self.load(self.rng.choice(sorted(self.saved)))
        elif r < 0.8 and self.loaded:
            h, _n, audio = self.rng.choice(self.loaded)
            self.resave(h, audio=audio)
        elif r < 0.9:
            self.emit({"op": "restart", "node": self.node()})
        else:
            self.jump()


PATTERNS = {
    "C01": [
        ("pat_roundtrip", 4),
        ("pat_all_types", 2),
        ("pat_overwrite", 2),
        ("pat_stale", 2),
        ("pat_touch", 2),
        ("pat_edit_loaded", 2),
        ("pat_two_saves", 2),
        ("pat_fault_heal", 2),
        ("pat_crash_then_save", 2),
        ("pat_cycle", 3),
        ("pat_restart", 1),
        ("pat_relocate", 1),
        ("pat_copy", 2),
        ("pat_merge", 2),
        ("pat_memdoc", 1),
        ("pat_random", 4),
    ],
    "C02": [
        ("pat_roundtrip", 3),
        ("pat_all_types", 3),
        ("pat_two_saves", 3),
        ("pat_stale", 2),
        ("pat_touch", 2),
        ("pat_edit_loaded", 2),
        ("pat_cycle", 3),
        ("pat_fault_heal", 1),
        ("pat_crash_then_save", 2),
        ("pat_overwrite", 1),
        ("pat_copy", 1),
        ("pat_merge", 3),
        ("pat_memdoc", 1),
        ("pat_random", 3),
    ],
    "C18": [
        ("pat_relocate", 5),
        ("pat_outside", 4),
        ("pat_touch", 2),
        ("pat_edit_loaded", 2),
        ("pat_all_types", 2),
        ("pat_roundtrip", 2),
        ("pat_cycle", 1),
        ("pat_fault_heal", 1),
        ("pat_crash_then_save", 1),
        ("pat_copy", 1),
        ("pat_memdoc", 2),
        ("pat_random", 2),
    ],
}


def gen_ops(rng, cfg, seed_tag) -> list:
    gen = _Gen(rng, cfg, seed_tag)
    patterns = PATTERNS[cfg["focus"]]
    names = [name for name, _ in patterns]
    weights = [w for _, w in patterns]
    # swarm: drop a random subset of patterns for this run
    if rng.random() < 0.5:
        keep = [rng.random() < 0.6 for _ in names]
        if any(keep):
            names = [nm for nm, k in zip(names, keep) if k]
            weights = [w for w, k in zip(weights, keep) if k]
    if rng.random() < 0.2:
        # machines differ in their locale: on some, the default text
        # encoding is ASCII
        ascii_node = rng.randrange(cfg["n_nodes"])
        for n in range(cfg["n_nodes"]):
            if n == ascii_node or rng.random() < 0.3:
                gen.emit({"op": "locale", "node": n, "name": "C"})
    if cfg["n_nodes"] > 1 and rng.random() < 0.25:
        # machines in different time zones
        for n in range(cfg["n_nodes"]):
            gen.emit({"op": "tz", "node": n, "name": rng.choice(
                ["UTC", "Asia/Kolkata", "America/St_Johns",
                 "Pacific/Auckland", "America/Los_Angeles"])})
    if cfg["n_nodes"] > 1 and rng.random() < 0.3:
        for n in range(cfg["n_nodes"]):
            gen.emit({"op": "skew", "node": n, "seconds": rng.choice(
                [0, 0, 3600, -86400, 400 * 86400, -0.5, 59])})
    while len(gen.ops) < cfg["max_ops"]:
        if rng.random() < 0.15:
            gen.jump()
        getattr(gen, rng.choices(names, weights)[0])()
    return gen.ops


SIM = AoefSim
SIMPLIFY = {
    "fault": None,
    "path_as": "str",
    "audio_as": "str",
    "api": "io",
    "type_arg": False,
    "recheck_arg": False,
}
prune_candidates = specs.prune_candidates
NONTRIVIAL_RULE = {
    "C01": "run with >=1 acknowledged save and >=1 fully checked load on a "
    "node that never held the saved object (another node, or the same node "
    "after a restart), world with >=4 entity kinds; distinct = distinct "
    "abstract trace (sequence of (operation, node role / object origin, "
    "collection type, fault kind, outcome class, audio-dir relation))",
    "C02": "run in which at least one completely written document with >=5 "
    "non-empty top-level lists was analysed against the writer-side "
    "reachability walk; distinct = distinct abstract trace",
    "C18": "run with >=1 relocation A->B of >=2 recordings checked on load, "
    "or >=1 rejected save (recording outside the audio directory) whose "
    "target file was compared before/after; distinct = distinct abstract "
    "trace",
}

STATES_MEASURE = (
    "distinct abstract model states after an operation: per file (status "
    "absent/clean/torn, collection type, saved with audio dir?, cycle count "
    "capped at 3), number of live loaded handles capped at 4, set of live nodes"
)
REAL_VS_STUB = {
    "real": [
        "all of soundevent (data classes, AOEF adapters, io.save / io.load)",
        "pydantic, pathlib, json",
        "the kernel's tmpfs as the disk (one private directory per run)",
        "process isolation: every node is its own OS process forked from a "
        "template that never saw a soundevent object",
    ],
    "stub": [
        "clock: module-global `datetime` of the soundevent.io.aoef* modules "
        "rebound to a simulated clock (never the same instant twice, jumps)",
        "randomness: module-global `uuid4` of those modules rebound to a "
        "seeded, recognisable stream",
        "disk faults: io.open / builtins.open / os.mkdir wrapped inside nodes "
        "(ENOSPC, EIO before/after k bytes, process crash at 5 points)",
        "machines: processes on one host; another machine's audio directory "
        "is a different path prefix (AOEF never opens audio files)",
    ],
}
ASSUMPTIONS = [
    "sampling, not proof: a clean batch is evidence only",
    "world specs are generated by harness code and materialised through the "
    "public constructors; canonical forms are computed by harness code "
    "inside the node by walking model_fields with getattr",
    "no fsync / power-loss model: an acknowledged write_text is taken as "
    "durable (soundevent never fsyncs and C01 promises no crash durability)",
    "AOEF 1.1.0 list and reference names are encoded in simlab/aoefdoc.py",
]
SHAPE_PROBES = [
    "shape:annotation-shared-by-two-parents",
    "shape:parent-sequence-without-sound-events",
    "shape:sequence-parent-depth>=2",
    "shape:sound-event-of-another-recording",
    "shape:sound-event-shared-annotation/prediction/sequence",
    "shape:tag-only-in-evaluation-tags",
    "shape:tag-only-in-prediction",
    "shape:tag-only-in-project-tags",
    "shape:time-expansion<1",
    "shape:user-only-as-badge-owner",
    "shape:user-only-as-note-author",
    "shape:user-only-as-recording-owner",
    "shape:geometry-none",
    "shape:same-object-twice-in-a-reference-list",
] + [f"shape:geometry-{g}" for g in specs.GEOMETRY_KINDS]
# advisory: whether they can be hit depends on the library under test (does
# it pass through the intercepted primitives, do its models allow assignment)
SEAM_PROBES = {
    "C01": WRITE_FAULTS + READ_FAULTS + [
        "save:success-after-failed-save",
        "touch:live-objects-edited-in-place",
        "edit:loaded-objects-edited-in-place",
    ],
}
CORE_PROBES = {
    "C01": SHAPE_PROBES + [
        "load:checked:other-node",
        "load:checked:same-node-after-restart",
        "load:checked:cycle>=2",
        "save:overwrite-with-shorter",
        "save:success-after-failed-save",
        "touch:live-objects-edited-in-place",
        "edit:loaded-objects-edited-in-place",
        "file:copy-by-another-tool",
        "file:rename-by-another-tool",
        "save:path-as-rel",
        "merge:collection-from-two-loaded-ones",
        "shape:bulk-world>=100-recordings",
        "save:document>=100kB",
        "clock-skew-between-nodes",
        "node-locale:C",
        "node-time-zone-set",
    ]
    + [f"load:checked:{t}" for t in COLLECTION_TYPE.values()]
    + WRITE_FAULTS
    + READ_FAULTS,
    "C02": SHAPE_PROBES + ["C02:doc-with>=5-lists", "save:of-loaded-object",
            "merge:collection-from-two-loaded-ones",
            "save:same-live-objects-again"]
    + [f"save:{t}" for t in COLLECTION_TYPE.values()],
    "C18": ["C18:relocated>=2-recordings", "C18:rejected-save-compared",
            "C18:stored-relative-checked", "C18:passthrough-checked",
            "save:audio-as-str", "save:audio-as-path",
            "save:audio-dir-positional"]
    + [f"C18:relocated:{t}" for t in COLLECTION_TYPE.values()],
}
