"""AOEF 1.1.0 document analysis from the JSON text alone (C02, C18).

Reference table: which field of which top-level list refers to which list.
``[]`` marks list-valued fields, ``[][0]`` a list of ``[id, score]`` pairs,
``notes[].created_by`` a field of inline note records.
"""

from __future__ import annotations

# list name -> (id field, {field path: target list})
TABLE = {
    "users": ("uuid", {}),
    "tags": ("id", {}),
    "recordings": (
        "uuid",
        {
            "tags[]": "tags",
            "owners[]": "users",
            "notes[].created_by": "users",
        },
    ),
    "clips": ("uuid", {"recording": "recordings"}),
    "sound_events": ("uuid", {"recording": "recordings"}),
    "sequences": (
        "uuid",
        {"sound_events[]": "sound_events", "parent": "sequences"},
    ),
    "sound_event_annotations": (
        "uuid",
        {
            "sound_event": "sound_events",
            "tags[]": "tags",
            "created_by": "users",
            "notes[].created_by": "users",
        },
    ),
    "sequence_annotations": (
        "uuid",
        {
            "sequence": "sequences",
            "tags[]": "tags",
            "created_by": "users",
            "notes[].created_by": "users",
        },
    ),
    "clip_annotations": (
        "uuid",
        {
            "clip": "clips",
            "tags[]": "tags",
            "sound_events[]": "sound_event_annotations",
            "sequences[]": "sequence_annotations",
            "notes[].created_by": "users",
        },
    ),
    "sound_event_predictions": (
        "uuid",
        {"sound_event": "sound_events", "tags[][0]": "tags"},
    ),
    "sequence_predictions": (
        "uuid",
        {"sequence": "sequences", "tags[][0]": "tags"},
    ),
    "clip_predictions": (
        "uuid",
        {
            "clip": "clips",
            "sound_events[]": "sound_event_predictions",
            "sequences[]": "sequence_predictions",
            "tags[][0]": "tags",
        },
    ),
    "matches": (
        "uuid",
        {
            "source": "sound_event_predictions",
            "target": "sound_event_annotations",
        },
    ),
    "clip_evaluations": (
        "uuid",
        {
            "annotations": "clip_annotations",
            "predictions": "clip_predictions",
            "matches[]": "matches",
        },
    ),
    "tasks": (
        "uuid",
        {"clip": "clips", "status_badges[].owner": "users"},
    ),
}

# references held by the collection record itself
ROOT_REFS = {"project_tags[]": "tags", "evaluation_tags[]": "tags"}

KNOWN_SCALARS = {
    "uuid",
    "collection_type",
    "created_on",
    "name",
    "description",
    "instructions",
    "version",
    "evaluation_task",
    "metrics",
    "score",
}


def _refs(record: dict, path: str):
    """Yield the ids found at a field path of the table inside one record."""
    if path.endswith("[][0]"):
        for pair in record.get(path[:-5]) or []:
            yield pair[0]
    elif "[]." in path:
        outer, inner = path.split("[].", 1)
        for sub in record.get(outer) or []:
            value = sub.get(inner)
            if value is not None:
                yield value
    elif path.endswith("[]"):
        for value in record.get(path[:-2]) or []:
            yield value
    else:
        value = record.get(path)
        if value is not None:
            yield value


def analyse(doc: dict) -> dict:
    """Return {"problems": [(class, detail)], "defined": {list: [ids]}}.

    Problems (value-free class first):
      C02:duplicate-id:<list>
      C02:dangling:<list>.<field>-><target>
      C02:parent-after-child
    """
    data = doc["data"]
    problems = []
    defined = {}
    order = {}
    for name, (id_field, _) in TABLE.items():
        records = data.get(name) or []
        ids = [rec.get(id_field) for rec in records]
        defined[name] = ids
        order[name] = {ident: i for i, ident in reversed(list(enumerate(ids)))}
        if len(set(map(_hashable, ids))) != len(ids):
            problems.append((f"C02:duplicate-id:{name}", _dupes(ids)))
    tag_pairs = [
        (rec.get("key"), rec.get("value")) for rec in data.get("tags") or []
    ]
    if len(set(tag_pairs)) != len(tag_pairs):
        problems.append(("C02:duplicate-id:tags", f"key/value {tag_pairs}"))
    for name, (_, refs) in TABLE.items():
        for i, rec in enumerate(data.get(name) or []):
            for path, target in refs.items():
                for ident in _refs(rec, path):
                    if _hashable(ident) not in order[target]:
                        problems.append(
                            (
                                f"C02:dangling:{name}.{path}->{target}",
                                f"{name}[{i}] -> {ident}",
                            )
                        )
                    elif name == "sequences" and path == "parent":
                        if order["sequences"][_hashable(ident)] >= i:
                            problems.append(
                                (
                                    "C02:parent-after-child",
                                    f"sequences[{i}] parent {ident}",
                                )
                            )
    for path, target in ROOT_REFS.items():
        for ident in _refs(data, path):
            if _hashable(ident) not in order[target]:
                problems.append(
                    (f"C02:dangling:data.{path}->{target}", f"-> {ident}")
                )
    return {"problems": problems, "defined": defined, "tag_pairs": tag_pairs}


def _hashable(value):
    return tuple(value) if isinstance(value, list) else value


def _dupes(ids):
    seen, out = set(), []
    for ident in ids:
        key = _hashable(ident)
        if key in seen:
            out.append(ident)
        seen.add(key)
    return f"repeated {out}"


def compare_with_reach(analysis: dict, reach: dict):
    """Defined objects must be exactly the reachable ones, kind by kind."""
    problems = []
    for kind, reachable in reach.items():
        if kind == "tags":
            have = {tuple(p) for p in analysis["tag_pairs"]}
            want = {tuple(p) for p in reachable}
        else:
            have = set(analysis["defined"].get(kind, []))
            want = set(reachable)
        missing = want - have
        extra = have - want
        if missing:
            problems.append(
                (f"C02:missing:{kind}", f"{sorted(map(str, missing))[:4]}")
            )
        if extra:
            problems.append(
                (f"C02:unreachable:{kind}", f"{sorted(map(str, extra))[:4]}")
            )
    return problems


def uuid_net(doc: dict, reach: dict):
    """Schema-agnostic net: any string anywhere in the document that equals a
    reachable object's identifier must be defined in that object's list."""
    kind_of = {}
    for kind, ids in reach.items():
        if kind == "tags":
            continue
        for ident in ids:
            kind_of[ident] = kind
    data = doc["data"]
    defined = {
        kind: {rec.get("uuid") for rec in (data.get(kind) or [])}
        for kind in TABLE
        if kind != "tags"
    }
    problems = []

    def walk(value, where):
        if isinstance(value, dict):
            for key, item in value.items():
                walk(item, f"{where}.{key}")
        elif isinstance(value, list):
            for item in value:
                walk(item, f"{where}[]")
        elif isinstance(value, str):
            kind = kind_of.get(value)
            if kind is not None and value not in defined[kind]:
                problems.append(
                    (f"C02:dangling-any:{where}->{kind}", value)
                )

    walk(data, "data")
    return problems


def recording_paths(doc: dict) -> dict:
    return {
        rec["uuid"]: rec.get("path")
        for rec in doc["data"].get("recordings") or []
    }
