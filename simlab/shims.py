"""Seam shims. Installed once in the template process, inherited by nodes.

No change to /repo is needed: every seam is a module-level name of the
soundevent AOEF modules (``datetime``, ``uuid4``), of ``soundevent.audio.io``
(``sf``) or a Python-level file primitive (``io.open`` / ``builtins.open`` /
``os.mkdir``) that pathlib reaches through an attribute lookup at call time.
"""

from __future__ import annotations

import builtins
import datetime as _real_dt
import errno
import io
import os
import sys
import uuid as _real_uuid

# --------------------------------------------------------------------- clock


class _ClockState:
    base = _real_dt.datetime(2001, 1, 1)
    ticks = 0  # number of now() calls since the clock was last set
    calls = 0  # number of now() calls during the current request
    mono = 0.0  # simulated monotonic seconds
    time_calls = 0  # time.time() / monotonic() calls (none on today's tree)


CLOCK = _ClockState()


def set_clock(iso: str) -> None:
    new = _real_dt.datetime.fromisoformat(iso)
    # the monotonic clock follows forward movement of the wall clock only
    delta = (new - CLOCK.base).total_seconds()
    if delta > 0:
        CLOCK.mono += delta
    CLOCK.base = new
    CLOCK.ticks = 0


_EPOCH = _real_dt.datetime(1970, 1, 1)


def sim_time() -> float:
    CLOCK.ticks += 1
    CLOCK.time_calls += 1
    return (CLOCK.base - _EPOCH).total_seconds() + CLOCK.ticks * 1e-6


def sim_time_ns() -> int:
    return int(sim_time() * 1e9)


def sim_monotonic() -> float:
    CLOCK.ticks += 1
    CLOCK.time_calls += 1
    return 1000.0 + CLOCK.mono + CLOCK.ticks * 1e-6


def sim_monotonic_ns() -> int:
    return int(sim_monotonic() * 1e9)


def sim_sleep(seconds) -> None:
    """Part of the clock seam: a sleep takes simulated time only (a
    wait-with-timeout loop must see its deadline pass)."""
    seconds = max(0.0, float(seconds))
    CLOCK.mono += seconds
    CLOCK.base = CLOCK.base + _real_dt.timedelta(seconds=seconds)
    CLOCK.time_calls += 1


def _now(tz=None):
    # never the same instant twice; a plain datetime, not a subclass instance
    CLOCK.ticks += 1
    CLOCK.calls += 1
    value = CLOCK.base + _real_dt.timedelta(microseconds=CLOCK.ticks)
    if tz is not None:
        value = value.replace(tzinfo=tz)
    return value


class _AnyDateTime(type):
    """isinstance / issubclass against the stand-in answer for the real class:
    library code that asks ``isinstance(x, datetime.datetime)`` must get the
    answer it gets outside the simulator."""

    def __instancecheck__(cls, obj):
        return isinstance(obj, _real_dt.datetime)

    def __subclasscheck__(cls, sub):
        return issubclass(sub, _real_dt.datetime)


class SimDateTime(_real_dt.datetime, metaclass=_AnyDateTime):
    @classmethod
    def __get_pydantic_core_schema__(cls, source, handler):
        # a model the library defines after the seams are attached (inside a
        # function, with create_model or TypeAdapter) annotates a field with
        # this class: it is a datetime field
        from pydantic_core import core_schema  # noqa: PLC0415

        return core_schema.datetime_schema()

    @classmethod
    def now(cls, tz=None):  # noqa: D102
        return _now(tz)

    @classmethod
    def utcnow(cls):  # noqa: D102
        return _now()

    @classmethod
    def today(cls):  # noqa: D102
        return _now()


class _DatetimeShim:
    """Stands in for the ``datetime`` module inside soundevent.io.aoef.*"""

    datetime = SimDateTime

    def __getattr__(self, name):
        return getattr(_real_dt, name)


DATETIME_SHIM = _DatetimeShim()

# ---------------------------------------------------------------- randomness


class _UuidState:
    stream = 0
    counter = 0
    calls = 0


UUIDS = _UuidState()


def set_uuid_stream(stream: int) -> None:
    UUIDS.stream = stream & 0xFFFFFFFF
    UUIDS.counter = 0


class _UuidShim:
    """Stands in for the ``uuid`` module (under whatever name a library
    module imported it)."""

    def __getattr__(self, name):
        if name == "uuid4":
            return sim_uuid4
        return getattr(_real_uuid, name)


UUID_SHIM = _UuidShim()


def sim_uuid4():
    """Seeded, recognisable identifiers: 5151fa11-<stream>-4xxx-8xxx-<counter>."""
    UUIDS.counter += 1
    UUIDS.calls += 1
    value = (
        (0x5151FA11 << 96)
        | ((UUIDS.stream & 0xFFFF) << 80)
        | (0x4000 << 64)
        | (0x8000 << 48)
        | (UUIDS.counter & 0xFFFFFFFFFFFF)
    )
    return _real_uuid.UUID(int=value)


# ---------------------------------------------------------------------- disk

REAL_OPEN = io.open
REAL_OS_OPEN = os.open
REAL_OS_WRITE = os.write
REAL_OS_CLOSE = os.close
REAL_MKDIR = os.mkdir
REAL_REPLACE = os.replace
REAL_RENAME = os.rename


class _Flags:
    """"This fault has fired", visible to the node and to any process the
    library forks from it (a decoder or writer in a child process): a small
    shared mapping, one slot per fault family, holding the generation number
    of the fault that fired."""

    def __init__(self):
        import mmap  # noqa: PLC0415

        self.mm = mmap.mmap(-1, 16)
        self.gen = 0

    def next(self) -> int:
        self.gen = (self.gen % 0x7FFFFFF0) + 1
        return self.gen

    def get(self, slot: int) -> int:
        return int.from_bytes(self.mm[slot * 4: slot * 4 + 4], "little")

    def set(self, slot: int, value: int) -> None:
        self.mm[slot * 4: slot * 4 + 4] = int(value).to_bytes(4, "little")


FLAGS = _Flags()


def new_flags() -> None:
    """Called in every node right after it is forked from the template."""
    global FLAGS
    FLAGS = _Flags()


class Fault:
    """One armed fault for the current request (at most one fires)."""

    def __init__(self, spec: dict, root: str):
        self.kind = spec["kind"]
        self.permille = int(spec.get("permille", 500))
        self.root = root
        self.gen = FLAGS.next()

    @property
    def fired(self) -> bool:
        return FLAGS.get(0) == self.gen

    @fired.setter
    def fired(self, value: bool) -> None:
        FLAGS.set(0, self.gen if value else 0)

    def covers(self, path) -> bool:
        try:
            text = os.fspath(path)
        except TypeError:
            return False
        if isinstance(text, bytes):
            text = text.decode("utf-8", "surrogateescape")
        return os.path.abspath(text).startswith(self.root)


class _State:
    fault: Fault | None = None
    root: str | None = None
    crash_hook = None  # called instead of os._exit in tests


STATE = _State()


def arm(spec, root):
    STATE.fault = Fault(spec, root) if spec else None
    # which fault is armed *now* is shared too: a helper process the library
    # forked during an earlier request still carries that request's fault in
    # its copy of this module, and must not fire it
    FLAGS.set(3, STATE.fault.gen if STATE.fault else 0)
    _FDS.clear()


def _live(fault) -> bool:
    return fault is not None and FLAGS.get(3) == fault.gen


def disarm():
    fault, STATE.fault = STATE.fault, None
    FLAGS.set(3, 0)
    return bool(fault and fault.fired)


def _crash():
    # a process crash: nothing is flushed that was not flushed already,
    # no exception handler and no finally block of the caller runs. When the
    # crashing process is the node itself, helper processes the library
    # started go down with it (the node leads its own process group).
    import signal  # noqa: PLC0415

    if os.getpid() == os.getpgrp():
        try:
            os.killpg(0, signal.SIGKILL)
        except OSError:
            pass
    os._exit(137)


class _FaultyWriter:
    """Wraps a text/binary file opened for writing under an armed fault."""

    def __init__(self, real, fault: Fault):
        self._real = real
        self._fault = fault

    def write(self, data):
        fault = self._fault
        if fault.fired or STATE.fault is not fault:
            return self._real.write(data)
        kind = fault.kind
        if kind == "write_enospc":
            fault.fired = True
            raise OSError(errno.ENOSPC, "No space left on device (injected)")
        k = (len(data) * fault.permille) // 1000
        k = max(0, min(len(data), k))
        if kind == "write_eio_after":
            fault.fired = True
            self._real.write(data[:k])
            self._real.flush()
            raise OSError(errno.EIO, "Input/output error (injected)")
        if kind == "crash_after_bytes":
            fault.fired = True
            self._real.write(data[:k])
            self._real.flush()
            _crash()
        return self._real.write(data)

    def writelines(self, lines):
        for line in lines:
            self.write(line)

    def close(self):
        # "everything was written, then the process died": a writer may use
        # any number of write() calls, so the point is the close
        fault = self._fault
        self._real.close()
        if (
            fault.kind == "crash_after_write"
            and not fault.fired
            and STATE.fault is fault
        ):
            fault.fired = True
            _crash()

    def __enter__(self):
        self._real.__enter__()
        return self

    def __exit__(self, *exc):
        if exc and exc[0] is not None:
            self._real.close()
        else:
            self.close()
        return False

    def __getattr__(self, name):
        return getattr(self._real, name)

    def __iter__(self):
        return iter(self._real)


_WRITE_KINDS = {
    "open_eio",
    "write_enospc",
    "write_eio_after",
    "crash_before_open",
    "crash_after_bytes",
    "crash_after_write",
}
_READ_KINDS = {"read_eio"}


# descriptors opened for writing below the run directory while a fault is
# armed (os.open / tempfile.mkstemp followed by os.fdopen or os.write)
_FDS = {}


def sim_os_open(path, flags, *args, **kwargs):
    fault = STATE.fault
    writing = bool(flags & (os.O_WRONLY | os.O_RDWR))
    if (
        _live(fault) and not fault.fired and writing
        and fault.kind in _WRITE_KINDS and fault.covers(path)
    ):
        if fault.kind == "open_eio":
            fault.fired = True
            raise OSError(errno.EIO, "Input/output error (injected)")
        if fault.kind == "crash_before_open":
            fault.fired = True
            _crash()
        fd = REAL_OS_OPEN(path, flags, *args, **kwargs)
        _FDS[fd] = fault
        return fd
    return REAL_OS_OPEN(path, flags, *args, **kwargs)


def sim_os_write(fd, data):
    fault = _FDS.get(fd)
    if fault is None or fault.fired or STATE.fault is not fault:
        return REAL_OS_WRITE(fd, data)
    kind = fault.kind
    if kind == "write_enospc":
        fault.fired = True
        raise OSError(errno.ENOSPC, "No space left on device (injected)")
    k = max(0, min(len(data), (len(data) * fault.permille) // 1000))
    if kind == "write_eio_after":
        fault.fired = True
        REAL_OS_WRITE(fd, data[:k])
        raise OSError(errno.EIO, "Input/output error (injected)")
    if kind == "crash_after_bytes":
        fault.fired = True
        REAL_OS_WRITE(fd, data[:k])
        _crash()
    return REAL_OS_WRITE(fd, data)


def sim_os_close(fd):
    fault = _FDS.pop(fd, None)
    REAL_OS_CLOSE(fd)
    if (
        fault is not None and fault.kind == "crash_after_write"
        and not fault.fired and STATE.fault is fault
    ):
        fault.fired = True
        _crash()


def sim_open(file, mode="r", *args, **kwargs):
    fault = STATE.fault
    if isinstance(file, int) and file in _FDS:
        # os.fdopen of a descriptor opened under the armed fault
        tracked = _FDS.pop(file)
        real = REAL_OPEN(file, mode, *args, **kwargs)
        if tracked is fault and not tracked.fired:
            return _FaultyWriter(real, tracked)
        return real
    if _live(fault) and not fault.fired and not isinstance(file, int):
        if fault.covers(file):
            writing = any(c in mode for c in "wax+")
            if writing and fault.kind in _WRITE_KINDS:
                if fault.kind == "open_eio":
                    fault.fired = True
                    raise OSError(errno.EIO, "Input/output error (injected)")
                if fault.kind == "crash_before_open":
                    fault.fired = True
                    _crash()
                real = REAL_OPEN(file, mode, *args, **kwargs)
                return _FaultyWriter(real, fault)
            if not writing and fault.kind in _READ_KINDS:
                fault.fired = True
                raise OSError(errno.EIO, "Input/output error (injected)")
    return REAL_OPEN(file, mode, *args, **kwargs)


def sim_mkdir(path, mode=0o777, *args, **kwargs):
    fault = STATE.fault
    if _live(fault) and not fault.fired and fault.covers(path):
        if fault.kind == "mkdir_enospc":
            fault.fired = True
            raise OSError(errno.ENOSPC, "No space left on device (injected)")
        if fault.kind == "crash_before_mkdir":
            fault.fired = True
            _crash()
        if fault.kind == "crash_after_mkdir":
            REAL_MKDIR(path, mode, *args, **kwargs)
            fault.fired = True
            _crash()
    return REAL_MKDIR(path, mode, *args, **kwargs)


def _sim_move(real):
    def move(src, dst, *args, **kwargs):
        fault = STATE.fault
        if _live(fault) and not fault.fired and (
            fault.covers(src) or fault.covers(dst)
        ):
            if fault.kind == "rename_eio":
                fault.fired = True
                raise OSError(errno.EIO, "Input/output error (injected)")
            if fault.kind == "crash_before_rename":
                fault.fired = True
                _crash()
            if fault.kind == "crash_after_rename":
                real(src, dst, *args, **kwargs)
                fault.fired = True
                _crash()
        return real(src, dst, *args, **kwargs)

    return move


sim_replace = _sim_move(REAL_REPLACE)
sim_rename = _sim_move(REAL_RENAME)


# --------------------------------------------------------------------- audio


class _AudioFault:
    kind = None  # "sf_open_error" | "sf_read_error" | "sf_*_crash"
    gen = 0

    @property
    def fired(self) -> bool:
        return self.gen != 0 and FLAGS.get(1) == self.gen

    @fired.setter
    def fired(self, value: bool) -> None:
        FLAGS.set(1, self.gen if value else 0)


AUDIO = _AudioFault()


def arm_audio(kind):
    AUDIO.kind = kind
    AUDIO.gen = FLAGS.next()
    FLAGS.set(1, 0)
    FLAGS.set(2, AUDIO.gen if kind else 0)


def _audio_point(real, stage):
    """Fault point of an audio call: stage is "open", "read" or "both" (a
    module-level ``soundfile.read`` / ``blocks`` opens and reads)."""
    if AUDIO.kind is None or AUDIO.fired or FLAGS.get(2) != AUDIO.gen:
        return
    if stage in ("open", "both"):
        if AUDIO.kind == "sf_open_crash":
            AUDIO.fired = True
            _crash()
        if AUDIO.kind == "sf_open_error":
            AUDIO.fired = True
            raise real.LibsndfileError(2, prefix="Error opening (injected): ")
    if stage in ("read", "both"):
        if AUDIO.kind == "sf_read_crash":
            AUDIO.fired = True
            _crash()
        if AUDIO.kind == "sf_read_error":
            AUDIO.fired = True
            raise real.LibsndfileError(3, prefix="Error reading (injected): ")


class _SfShim:
    """Stands in for the ``soundfile`` module inside soundevent.audio.io:
    the ``SoundFile`` class and the module-level ``read`` / ``blocks`` /
    ``info`` functions are fault points."""

    def __init__(self, real):
        self._real = real

        class SoundFile(real.SoundFile):
            def __init__(self, *a, **kw):
                _audio_point(real, "open")
                super().__init__(*a, **kw)

            def read(self, *a, **kw):
                _audio_point(real, "read")
                return super().read(*a, **kw)

            def buffer_read(self, *a, **kw):
                _audio_point(real, "read")
                return super().buffer_read(*a, **kw)

            def blocks(self, *a, **kw):
                _audio_point(real, "read")
                return super().blocks(*a, **kw)

        self.SoundFile = SoundFile

        def read(*a, **kw):
            _audio_point(real, "both")
            return real.read(*a, **kw)

        def blocks(*a, **kw):
            _audio_point(real, "both")
            return real.blocks(*a, **kw)

        def info(*a, **kw):
            _audio_point(real, "open")
            return real.info(*a, **kw)

        self.read, self.blocks, self.info = read, blocks, info

    def __getattr__(self, name):
        return getattr(self._real, name)


# ------------------------------------------------------------------- install

INSTALLED = {"datetime": [], "uuid4": [], "sf": [], "time": []}


def install_time() -> None:
    """The clock seam of the `time` module. Called before the library is
    imported, so that `from time import sleep, monotonic` binds these."""
    import time as _time  # noqa: PLC0415

    _time.time = sim_time
    _time.time_ns = sim_time_ns
    _time.monotonic = sim_monotonic
    _time.monotonic_ns = sim_monotonic_ns
    _time.perf_counter = sim_monotonic
    _time.perf_counter_ns = sim_monotonic_ns
    _time.sleep = sim_sleep
    # a timed wait on a condition (threading.Event.wait, Condition.wait)
    # really waits -- other threads get their time -- and, when it times
    # out, the simulated clock has advanced by the time-out as well: a loop
    # `while monotonic() < deadline: event.wait(0.05)` sees its deadline pass
    import threading as _threading  # noqa: PLC0415

    if not getattr(_threading.Condition.wait, "_simlab", False):
        real_wait = _threading.Condition.wait

        def wait(self, timeout=None):
            got = real_wait(self, timeout)
            if timeout is not None and not got:
                sim_sleep(timeout)
            return got

        wait._simlab = True
        _threading.Condition.wait = wait


def install(aoef: bool = True, audio: bool = False) -> dict:
    """Rebind the seams. Call after soundevent has been imported."""
    io.open = sim_open
    builtins.open = sim_open
    os.mkdir = sim_mkdir
    os.open = sim_os_open
    os.write = sim_os_write
    os.close = sim_os_close
    # no rename is issued by today's save; a write-to-temp-then-rename
    # rewrite of it would run through these (pathlib's replace / rename
    # reach them by attribute lookup)
    os.replace = sim_replace
    os.rename = sim_rename
    # any timer or expiry a change to soundevent introduces reads these
    import time as _time  # noqa: PLC0415

    _time.time = sim_time
    _time.time_ns = sim_time_ns
    _time.monotonic = sim_monotonic
    _time.monotonic_ns = sim_monotonic_ns
    _time.perf_counter = sim_monotonic
    _time.sleep = sim_sleep
    INSTALLED["time"] = ["time.time", "time.time_ns", "time.monotonic",
                         "time.monotonic_ns", "time.perf_counter",
                         "time.sleep"]
    if aoef:
        # every global of every soundevent module that is the datetime /
        # uuid module, the datetime class or uuid4, under whatever name
        swap = {
            id(_real_dt): ("datetime", DATETIME_SHIM),
            id(_real_dt.datetime): ("datetime", SimDateTime),
            id(_real_uuid): ("uuid4", UUID_SHIM),
            id(_real_uuid.uuid4): ("uuid4", sim_uuid4),
        }
        for name, module in sorted(sys.modules.items()):
            if module is None or not (
                name == "soundevent" or name.startswith("soundevent.")
            ):
                continue
            for attr, value in list(vars(module).items()):
                if id(value) in swap and not attr.startswith("__"):
                    kind, stand_in = swap[id(value)]
                    setattr(module, attr, stand_in)
                    INSTALLED[kind].append(f"{name}.{attr}")
    if audio:
        # the soundfile module itself is the seam: whatever module of the
        # library imports it, at import time or lazily inside a function,
        # and under whatever name, gets the fault points
        import soundfile as real_sf  # noqa: PLC0415

        if isinstance(real_sf, _SfShim):
            shim, real_sf = real_sf, real_sf._real
        else:
            shim = _SfShim(real_sf)
            sys.modules["soundfile"] = shim
        swap = {
            id(real_sf): shim,
            id(real_sf.SoundFile): shim.SoundFile,
            id(real_sf.read): shim.read,
            id(real_sf.blocks): shim.blocks,
            id(real_sf.info): shim.info,
        }
        for name, module in sorted(sys.modules.items()):
            if module is None or not (
                name == "soundevent" or name.startswith("soundevent.")
            ):
                continue
            for attr, value in list(vars(module).items()):
                if id(value) in swap and not attr.startswith("__"):
                    setattr(module, attr, swap[id(value)])
                    INSTALLED["sf"].append(f"{name}.{attr}")
    return INSTALLED
