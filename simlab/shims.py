"""Seam shims. Installed once in the template process, inherited by nodes.

No change to /repo is needed: every seam is a module-level name of the
soundevent AOEF modules (``datetime``, ``uuid4``), of ``soundevent.audio.io``
(``sf``) or a Python-level file primitive (``io.open`` / ``builtins.open`` /
``os.mkdir``) that pathlib reaches through an attribute lookup at call time.
"""

from __future__ import annotations

import builtins
import datetime as _real_dt
import errno
import io
import os
import sys
import uuid as _real_uuid

# --------------------------------------------------------------------- clock


class _ClockState:
    base = _real_dt.datetime(2001, 1, 1)
    ticks = 0  # number of now() calls since the clock was last set
    calls = 0  # number of now() calls during the current request
    mono = 0.0  # simulated monotonic seconds
    time_calls = 0  # time.time() / monotonic() calls (none on today's tree)


CLOCK = _ClockState()


def set_clock(iso: str) -> None:
    new = _real_dt.datetime.fromisoformat(iso)
    # the monotonic clock follows forward movement of the wall clock only
    delta = (new - CLOCK.base).total_seconds()
    if delta > 0:
        CLOCK.mono += delta
    CLOCK.base = new
    CLOCK.ticks = 0


_EPOCH = _real_dt.datetime(1970, 1, 1)


def sim_time() -> float:
    CLOCK.ticks += 1
    CLOCK.time_calls += 1
    return (CLOCK.base - _EPOCH).total_seconds() + CLOCK.ticks * 1e-6


def sim_time_ns() -> int:
    return int(sim_time() * 1e9)


def sim_monotonic() -> float:
    CLOCK.ticks += 1
    CLOCK.time_calls += 1
    return 1000.0 + CLOCK.mono + CLOCK.ticks * 1e-6


def sim_monotonic_ns() -> int:
    return int(sim_monotonic() * 1e9)


def _now(tz=None):
    # never the same instant twice; a plain datetime, not a subclass instance
    CLOCK.ticks += 1
    CLOCK.calls += 1
    value = CLOCK.base + _real_dt.timedelta(microseconds=CLOCK.ticks)
    if tz is not None:
        value = value.replace(tzinfo=tz)
    return value


class SimDateTime(_real_dt.datetime):
    @classmethod
    def now(cls, tz=None):  # noqa: D102
        return _now(tz)

    @classmethod
    def utcnow(cls):  # noqa: D102
        return _now()

    @classmethod
    def today(cls):  # noqa: D102
        return _now()


class _DatetimeShim:
    """Stands in for the ``datetime`` module inside soundevent.io.aoef.*"""

    datetime = SimDateTime

    def __getattr__(self, name):
        return getattr(_real_dt, name)


DATETIME_SHIM = _DatetimeShim()

# ---------------------------------------------------------------- randomness


class _UuidState:
    stream = 0
    counter = 0
    calls = 0


UUIDS = _UuidState()


def set_uuid_stream(stream: int) -> None:
    UUIDS.stream = stream & 0xFFFFFFFF
    UUIDS.counter = 0


def sim_uuid4():
    """Seeded, recognisable identifiers: 5151fa11-<stream>-4xxx-8xxx-<counter>."""
    UUIDS.counter += 1
    UUIDS.calls += 1
    value = (
        (0x5151FA11 << 96)
        | ((UUIDS.stream & 0xFFFF) << 80)
        | (0x4000 << 64)
        | (0x8000 << 48)
        | (UUIDS.counter & 0xFFFFFFFFFFFF)
    )
    return _real_uuid.UUID(int=value)


# ---------------------------------------------------------------------- disk

REAL_OPEN = io.open
REAL_MKDIR = os.mkdir
REAL_REPLACE = os.replace
REAL_RENAME = os.rename


class Fault:
    """One armed fault for the current request (at most one fires)."""

    def __init__(self, spec: dict, root: str):
        self.kind = spec["kind"]
        self.permille = int(spec.get("permille", 500))
        self.root = root
        self.fired = False

    def covers(self, path) -> bool:
        try:
            text = os.fspath(path)
        except TypeError:
            return False
        if isinstance(text, bytes):
            text = text.decode("utf-8", "surrogateescape")
        return os.path.abspath(text).startswith(self.root)


class _State:
    fault: Fault | None = None
    root: str | None = None
    crash_hook = None  # called instead of os._exit in tests


STATE = _State()


def arm(spec, root):
    STATE.fault = Fault(spec, root) if spec else None


def disarm():
    fault, STATE.fault = STATE.fault, None
    return bool(fault and fault.fired)


def _crash():
    # a process crash: nothing is flushed that was not flushed already,
    # no exception handler and no finally block of the caller runs
    os._exit(137)


class _FaultyWriter:
    """Wraps a text/binary file opened for writing under an armed fault."""

    def __init__(self, real, fault: Fault):
        self._real = real
        self._fault = fault

    def write(self, data):
        fault = self._fault
        if fault.fired or STATE.fault is not fault:
            return self._real.write(data)
        kind = fault.kind
        if kind == "write_enospc":
            fault.fired = True
            raise OSError(errno.ENOSPC, "No space left on device (injected)")
        k = (len(data) * fault.permille) // 1000
        k = max(0, min(len(data), k))
        if kind == "write_eio_after":
            fault.fired = True
            self._real.write(data[:k])
            self._real.flush()
            raise OSError(errno.EIO, "Input/output error (injected)")
        if kind == "crash_after_bytes":
            fault.fired = True
            self._real.write(data[:k])
            self._real.flush()
            _crash()
        if kind == "crash_after_write":
            fault.fired = True
            self._real.write(data)
            self._real.flush()
            self._real.close()
            _crash()
        return self._real.write(data)

    def __enter__(self):
        self._real.__enter__()
        return self

    def __exit__(self, *exc):
        return self._real.__exit__(*exc)

    def __getattr__(self, name):
        return getattr(self._real, name)

    def __iter__(self):
        return iter(self._real)


_WRITE_KINDS = {
    "open_eio",
    "write_enospc",
    "write_eio_after",
    "crash_before_open",
    "crash_after_bytes",
    "crash_after_write",
}
_READ_KINDS = {"read_eio"}


def sim_open(file, mode="r", *args, **kwargs):
    fault = STATE.fault
    if fault is not None and not fault.fired and not isinstance(file, int):
        if fault.covers(file):
            writing = any(c in mode for c in "wax+")
            if writing and fault.kind in _WRITE_KINDS:
                if fault.kind == "open_eio":
                    fault.fired = True
                    raise OSError(errno.EIO, "Input/output error (injected)")
                if fault.kind == "crash_before_open":
                    fault.fired = True
                    _crash()
                real = REAL_OPEN(file, mode, *args, **kwargs)
                return _FaultyWriter(real, fault)
            if not writing and fault.kind in _READ_KINDS:
                fault.fired = True
                raise OSError(errno.EIO, "Input/output error (injected)")
    return REAL_OPEN(file, mode, *args, **kwargs)


def sim_mkdir(path, mode=0o777, *args, **kwargs):
    fault = STATE.fault
    if fault is not None and not fault.fired and fault.covers(path):
        if fault.kind == "mkdir_enospc":
            fault.fired = True
            raise OSError(errno.ENOSPC, "No space left on device (injected)")
        if fault.kind == "crash_before_mkdir":
            fault.fired = True
            _crash()
        if fault.kind == "crash_after_mkdir":
            REAL_MKDIR(path, mode, *args, **kwargs)
            fault.fired = True
            _crash()
    return REAL_MKDIR(path, mode, *args, **kwargs)


def _sim_move(real):
    def move(src, dst, *args, **kwargs):
        fault = STATE.fault
        if fault is not None and not fault.fired and (
            fault.covers(src) or fault.covers(dst)
        ):
            if fault.kind == "rename_eio":
                fault.fired = True
                raise OSError(errno.EIO, "Input/output error (injected)")
            if fault.kind == "crash_before_rename":
                fault.fired = True
                _crash()
            if fault.kind == "crash_after_rename":
                real(src, dst, *args, **kwargs)
                fault.fired = True
                _crash()
        return real(src, dst, *args, **kwargs)

    return move


sim_replace = _sim_move(REAL_REPLACE)
sim_rename = _sim_move(REAL_RENAME)


# --------------------------------------------------------------------- audio


class _AudioFault:
    kind = None  # "sf_open_error" | "sf_read_error"
    fired = False


AUDIO = _AudioFault()


def arm_audio(kind):
    AUDIO.kind = kind
    AUDIO.fired = False


class _SfShim:
    """Stands in for the ``soundfile`` module inside soundevent.audio.io."""

    def __init__(self, real):
        self._real = real
        shim = self

        class SoundFile(real.SoundFile):
            def __init__(self, *a, **kw):
                if AUDIO.kind == "sf_open_crash" and not AUDIO.fired:
                    AUDIO.fired = True
                    _crash()
                if AUDIO.kind == "sf_open_error" and not AUDIO.fired:
                    AUDIO.fired = True
                    raise real.LibsndfileError(
                        2, prefix="Error opening (injected): "
                    )
                super().__init__(*a, **kw)

            def read(self, *a, **kw):
                if AUDIO.kind == "sf_read_crash" and not AUDIO.fired:
                    AUDIO.fired = True
                    _crash()
                if AUDIO.kind == "sf_read_error" and not AUDIO.fired:
                    AUDIO.fired = True
                    raise real.LibsndfileError(
                        3, prefix="Error reading (injected): "
                    )
                return super().read(*a, **kw)

        self.SoundFile = SoundFile
        del shim

    def __getattr__(self, name):
        return getattr(self._real, name)


# ------------------------------------------------------------------- install

INSTALLED = {"datetime": [], "uuid4": [], "sf": [], "time": []}


def install(aoef: bool = True, audio: bool = False) -> dict:
    """Rebind the seams. Call after soundevent has been imported."""
    io.open = sim_open
    builtins.open = sim_open
    os.mkdir = sim_mkdir
    # no rename is issued by today's save; a write-to-temp-then-rename
    # rewrite of it would run through these (pathlib's replace / rename
    # reach them by attribute lookup)
    os.replace = sim_replace
    os.rename = sim_rename
    # any timer or expiry a change to soundevent introduces reads these
    import time as _time  # noqa: PLC0415

    _time.time = sim_time
    _time.time_ns = sim_time_ns
    _time.monotonic = sim_monotonic
    _time.monotonic_ns = sim_monotonic_ns
    _time.perf_counter = sim_monotonic
    INSTALLED["time"] = ["time.time", "time.time_ns", "time.monotonic",
                         "time.monotonic_ns", "time.perf_counter"]
    if aoef:
        for name, module in sorted(sys.modules.items()):
            if module is None or not (
                name == "soundevent" or name.startswith("soundevent.")
            ):
                continue
            if getattr(module, "datetime", None) is _real_dt:
                module.datetime = DATETIME_SHIM
                INSTALLED["datetime"].append(name)
            if getattr(module, "uuid4", None) is _real_uuid.uuid4:
                module.uuid4 = sim_uuid4
                INSTALLED["uuid4"].append(name)
    if audio:
        import soundevent.audio.io as audio_io  # noqa: PLC0415

        if not isinstance(audio_io.sf, _SfShim):
            audio_io.sf = _SfShim(audio_io.sf)
            INSTALLED["sf"].append("soundevent.audio.io")
    return INSTALLED
