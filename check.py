#!/venv/bin/python
"""CLI of the soundevent simulation checks.

  check.py run <id> [--tier quick|thorough] [--budget S] [--workers N]
  check.py replay <file>
  check.py selftest determinism [--prop ID] [--runs N]
  check.py _worker <json>            (internal)

Exit codes: 0 property held on everything explored; 1 VIOLATION (line
``VIOLATION property=<id> replay=<path>`` on stdout); 2 harness error.
Environment: VERIF_SEED, VERIF_TIER, VERIF_BUDGET_S, VERIF_REPO (default /repo).
"""

from __future__ import annotations

import argparse
import json
import os
import subprocess
import sys
import time

sys.dont_write_bytecode = True
HERE = os.path.dirname(os.path.abspath(__file__))
sys.path.insert(0, HERE)

from simlab import ENGINE_VERSION  # noqa: E402
from simlab.core import EXIT_HARNESS, EXIT_OK, EXIT_VIOLATION  # noqa: E402

CLAIMED = ["C01", "C02", "C04", "C15", "C18"]


def cmd_worker(argv):
    from simlab.runner import worker_main

    return worker_main(json.loads(argv[0]))


def verify_replay(path):
    """Replay in a fresh interpreter; returns (reproduced, output)."""
    for _ in range(3):
        proc = subprocess.run(
            [sys.executable, os.path.join(HERE, "check.py"), "replay", path],
            capture_output=True,
            text=True,
            timeout=600,
        )
        if proc.returncode == EXIT_VIOLATION:
            return True, proc.stdout
    return False, proc.stdout + proc.stderr


def core_probes(prop, tier):
    from simlab.runner import sim_kind

    m = sim_kind(prop)
    return getattr(m, "CORE_PROBES", {}).get(prop, [])


def cmd_run(ns):
    from simlab import runner

    prop = ns.prop
    tier = ns.tier or os.environ.get("VERIF_TIER") or "quick"
    seed = int(os.environ.get("VERIF_SEED", "0"))
    budget = ns.budget
    if budget is None and os.environ.get("VERIF_BUDGET_S"):
        budget = float(os.environ["VERIF_BUDGET_S"])
    started = time.time()
    print(
        f"[simlab] property={prop} tier={tier} VERIF_SEED={seed} "
        f"repo={runner.repo_dir()} engine={ENGINE_VERSION}",
        flush=True,
    )
    total, errors, wall, workers = runner.run_pool(
        prop, tier, seed, budget_s=budget, workers=ns.workers,
        max_runs=ns.max_runs,
    )
    m = runner.sim_kind(prop)
    audit = None
    if tier == "thorough" and not errors and not ns.no_audit:
        audit = determinism_audit(prop, seed, runs=48, tier="quick")
        if not audit["ok"]:
            errors.append(f"determinism audit failed: {audit['diverged'][:5]}")
        elif audit.get("hash_seed_dependent_runs"):
            print(
                "[simlab] NOTE: the output of runs "
                f"{audit['hash_seed_dependent_runs'][:8]} depends on the string "
                "hash seed (set / dict order of strings in the library or the "
                "harness); runs are repeatable under the hash seed recorded in "
                "each replay file"
            )

    # ---- violations: believed only if the replay reproduces
    confirmed, unconfirmed = [], []
    by_class = {}
    for v in total["violations"]:
        by_class.setdefault(v["class"], []).append(v)
    for records in by_class.values():
        # one reproducing record per class is reported; up to three are tried
        failed = None
        for v in records[:3]:
            ok, output = verify_replay(v["replay"])
            if ok:
                confirmed.append((v, output))
                break
            failed = failed or (v, output)
        else:
            unconfirmed.append(failed)
    for v, output in unconfirmed:
        errors.append(
            f"violation {v['class']} of run {v['run']} did not reproduce "
            f"from {v['replay']}: {output[-400:]}"
        )

    # ---- probe completeness (thorough): vacuous exploration is not a pass
    # Probes that depend on the workload alone must be hit. Fault kinds fire
    # only where the library calls an intercepted primitive (io.open,
    # os.mkdir, soundfile in soundevent.audio.io); a build that reaches the
    # disk another way leaves them unhit, which is reported (here and in the
    # evidence) but is not a failure of the property or of the check.
    missing, unreached = [], []
    if tier == "thorough" and not confirmed:
        seam = set(getattr(m, "SEAM_PROBES", {}).get(prop, []))
        for probe in core_probes(prop, tier):
            hit = total["probes"].get(probe, 0) + total["faults"].get(probe, 0)
            if not hit:
                (unreached if probe in seam else missing).append(probe)
        if missing:
            errors.append(f"core probes never hit: {missing}")
    total["seam_unreached"] = unreached
    # a search in which (almost) nothing was judged did not decide anything
    if not confirmed and not errors and total["runs"] == 0:
        errors.append("no run completed within the budget")
    if not confirmed and not errors and total["runs"] >= 50:
        if total["nontrivial"] * 10 < total["runs"]:
            errors.append(
                f"vacuous search: only {total['nontrivial']} of "
                f"{total['runs']} runs were non-trivial "
                f"(construction refused: "
                f"{total['probes'].get('world:construction-refused', 0)})"
            )

    known_lines = []
    for finding in runner.load_known(prop):
        if total["known_hits"].get(finding["id"]):
            known_lines.append(
                f"KNOWN-FINDING: property={prop} {finding['what']}"
            )

    if not ns.no_evidence:
        write_evidence(prop, tier, seed, total, wall, workers, m, audit,
                       len(confirmed), errors)

    rate = total["runs"] / wall * 3600 if wall else 0
    print(
        f"[simlab] runs={total['runs']} ops={total['ops']} "
        f"nontrivial={total['nontrivial']} distinct_traces="
        f"{len(total['traces'])} states={len(total['states'])} "
        f"checked={total['checked']} wall={wall:.1f}s "
        f"({rate:,.0f} runs/h on {workers} workers)"
    )
    print(f"[simlab] faults fired: {dict(sorted(total['faults'].items()))}")
    for line in known_lines:
        print(line)
    if total.get("seam_unreached"):
        print(f"[simlab] SEAM-UNREACHED (fault kinds that never fired; this "
              f"build does not pass through the intercepted primitive): "
              f"{total['seam_unreached']}")
    if errors:
        for err in errors:
            print(f"HARNESS-ERROR {err}")
    for v, output in confirmed:
        print(f"[simlab] {v['class']}: {v['detail']}")
        print(f"VIOLATION property={prop} replay={v['replay']}")
    if confirmed:
        return EXIT_VIOLATION
    if errors:
        return EXIT_HARNESS
    print(f"[simlab] property {prop} held on everything explored "
          f"({time.time() - started:.0f}s)")
    return EXIT_OK


def write_evidence(prop, tier, seed, total, wall, workers, m, audit,
                   n_violations, errors):
    os.makedirs(os.path.join(HERE, "evidence"), exist_ok=True)
    runs = total["runs"]
    coverage = {
        "evaluations": runs,
        "distinct_nontrivial": len(total["traces"]),
        "rule": m.NONTRIVIAL_RULE[prop]
        + ". Cases are generated by a seeded PRNG per run "
        "(derive_rng('run', property, VERIF_SEED, run_index)) which draws the "
        "run's swarm configuration and its complete operation-and-fault list.",
        "samples": (
            ([dict(total["full_sample"], note="smallest non-trivial run of "
                   "this execution, written out in full: configuration, every "
                   "operation with its world specs and faults, and the event "
                   "log the simulator recorded while executing it")]
             if total.get("full_sample") else [])
            + total["samples"]
        )
        or [{"note": "no non-trivial run in this (very short) execution"}],
        "simulated_runs": runs,
        "nontrivial_runs": total["nontrivial"],
        "operations_executed": total["ops"],
        "oracle_evaluations": total["checked"],
        "runs_per_hour": round(runs / wall * 3600) if wall else 0,
        "seeds_per_hour": round(runs / wall * 3600) if wall else 0,
        "workers": workers,
        "workers_with_python_optimize": total.get("workers_with_python_optimize", 0),
        "simulated_time_s": round(total["sim_seconds"], 3),
        "simulated_time_note": "sum over runs of the span of the simulated "
        "clock; nothing in soundevent waits on a timer, the clock only feeds "
        "the loader's created_on fall-backs, so this figure means little",
        "faults_fired": dict(sorted(total["faults"].items())),
        "probes": dict(sorted(total["probes"].items())),
        "distinct_abstract_states": len(total["states"]),
        "states_measure": m.STATES_MEASURE,
        "real_vs_stub": m.REAL_VS_STUB,
        "template": total["template"],
        "determinism_audit": audit,
        "known_findings_matched": dict(total["known_hits"]),
        "harness_errors": errors,
        "engine": ENGINE_VERSION,
    }
    evidence = {
        "property_id": prop,
        "tier": tier,
        "seed": seed,
        "level": "exploration",
        "coverage": coverage,
        "assumptions": m.ASSUMPTIONS + (
            [f"fault kinds that never fired in this execution (the build does "
             f"not pass through the intercepted primitive): "
             f"{total['seam_unreached']}"]
            if total.get("seam_unreached") else []
        ),
        "wall_s": round(wall, 2),
        "violations": n_violations,
    }
    path = os.path.join(HERE, "evidence", f"{prop}.json")
    with open(path, "w", encoding="utf-8") as fp:
        json.dump(evidence, fp, indent=1, ensure_ascii=False, default=str)


def determinism_audit(prop, seed, runs=64, tier="quick"):
    """Same run indices, different worker counts and hash seeds, fresh
    interpreters: per-run event-log digests must be identical."""
    from simlab import runner

    variants = [(4, 0), (7, 1), (4, 2)]
    tables = []
    for workers, salt in variants:
        total, errors, _, _ = runner.run_pool(
            prop, tier, seed, budget_s=300, workers=workers, max_runs=runs,
            keep_digests=True, hash_salt=salt * 7919, minimise_s=1,
        )
        if errors:
            return {"ok": False, "diverged": errors, "runs": runs}
        tables.append(total["digests"])
    diverged = []
    keys = sorted(tables[0], key=int)
    for key in keys:
        values = {t.get(key) for t in tables}
        if len(values) != 1:
            diverged.append(key)
    complete = all(len(t) == runs for t in tables)
    seed_dependent = []
    if diverged and complete:
        # Is it the string hash seed (which differs from worker to worker and
        # is recorded in every replay file), or does a run depend on which
        # worker executes it, i.e. on the runs before it? The same runs once
        # more, under two worker counts and ONE hash seed for all workers:
        # if these agree, a run is a function of (seed, run index, hash seed)
        # -- repeatable -- and the divergence above is output of the library
        # (or the harness) that depends on set / dict order of strings.
        fixed = []
        for workers in (4, 7):
            total, errors, _, _ = runner.run_pool(
                prop, tier, seed, budget_s=300, workers=workers,
                max_runs=runs, keep_digests=True, hash_fixed=12345,
                minimise_s=1,
            )
            if errors:
                return {"ok": False, "diverged": errors, "runs": runs}
            fixed.append(total["digests"])
        if fixed[0] == fixed[1] and len(fixed[0]) == runs:
            seed_dependent, diverged = diverged, []
    return {
        "ok": not diverged and complete,
        "runs": runs,
        "executions_per_run": len(variants) + (2 if seed_dependent else 0),
        "variants": [
            {"workers": w, "hash_salt": s * 7919} for w, s in variants
        ],
        "diverged": diverged,
        "hash_seed_dependent_runs": seed_dependent,
        "complete": complete,
    }


def cmd_selftest(ns):
    props = [ns.prop] if ns.prop else CLAIMED
    code = EXIT_OK
    for prop in props:
        audit = determinism_audit(
            prop, int(os.environ.get("VERIF_SEED", "0")), runs=ns.runs
        )
        print(f"[selftest] {prop}: {json.dumps(audit)}")
        if not audit["ok"]:
            code = EXIT_HARNESS
    return code


def run_benign(ns, catalog):
    """Property-preserving refactors: every listed check must stay silent."""
    import shutil
    import tempfile

    bad = 0
    for entry in catalog.B:
        if ns.only and not any(o in entry["id"] for o in ns.only):
            continue
        scratch = tempfile.mkdtemp(prefix=f"simlab-{entry['id']}-", dir="/tmp")
        os.rmdir(scratch)
        subprocess.run(
            ["git", "-C", "/repo", "worktree", "add", "--detach", "-q", scratch, "HEAD"],
            check=True,
        )
        try:
            path = os.path.join(scratch, entry["file"])
            with open(path) as fp:
                text = fp.read()
            if text.count(entry["old"]) != 1:
                raise SystemExit(f"benign {entry['id']}: old text occurs "
                                 f"{text.count(entry['old'])} times")
            with open(path, "w") as fp:
                fp.write(text.replace(entry["old"], entry["new"]))
            for prop in entry["props"]:
                proc = subprocess.run(
                    [sys.executable, os.path.join(HERE, "check.py"), "run", prop,
                     "--tier", "quick", "--budget", str(ns.budget), "--no-evidence"],
                    capture_output=True, text=True,
                    env=dict(os.environ, VERIF_REPO=scratch,
                             VERIF_SEED=os.environ.get("VERIF_SEED", "0")),
                )
                ok = proc.returncode == EXIT_OK
                bad += 0 if ok else 1
                lines = [ln for ln in proc.stdout.splitlines()
                         if ln.startswith("[simlab] C") or "HARNESS" in ln]
                fired = [ln for ln in proc.stdout.splitlines() if "faults fired" in ln]
                print(f"[benign] {entry['id']:38s} {prop} "
                      f"{'SILENT' if ok else 'ALARM(exit %d)' % proc.returncode} "
                      f"{lines[0][:200] if lines else ''}", flush=True)
                if "rename" in (fired[0] if fired else ""):
                    print(f"         {fired[0][:300]}")
        finally:
            subprocess.run(["git", "-C", "/repo", "worktree", "remove", "--force", scratch])
            shutil.rmtree(scratch, ignore_errors=True)
    print(f"[benign] false alarms: {bad}")
    return EXIT_OK if not bad else EXIT_VIOLATION


def cmd_sensitivity(ns):
    """Apply each catalogued mutant to a scratch worktree and expect the
    property's quick check to report a violation there."""
    import shutil
    import tempfile

    sys.path.insert(0, os.path.join(HERE, "mutants"))
    import catalog

    if ns.benign:
        return run_benign(ns, catalog)
    groups = catalog.GROUPS
    if ns.only:
        groups = {k: v for k, v in groups.items() if any(o in k for o in ns.only)}
    results = []
    for gid, parts in groups.items():
        prop = parts[0]["prop"]
        scratch = tempfile.mkdtemp(prefix=f"simlab-mut-{gid}-", dir="/tmp")
        os.rmdir(scratch)
        subprocess.run(
            ["git", "-C", "/repo", "worktree", "add", "--detach", "-q", scratch, "HEAD"],
            check=True,
        )
        try:
            for part in parts:
                path = os.path.join(scratch, part["file"])
                with open(path) as fp:
                    text = fp.read()
                if text.count(part["old"]) != 1:
                    raise SystemExit(
                        f"mutant {part['id']}: old text occurs "
                        f"{text.count(part['old'])} times in {part['file']}"
                    )
                with open(path, "w") as fp:
                    fp.write(text.replace(part["old"], part["new"]))
            baseline = None
            if ns.baseline:
                proc = subprocess.run(
                    ["/venv/bin/python", "-m", "pytest", "-q", "-p",
                     "no:cacheprovider", "--timeout=900", "-rf"],
                    cwd=scratch, capture_output=True, text=True,
                    env=dict(os.environ, PYTHONPATH=os.path.join(scratch, "src")),
                )
                known = {
                    "test_can_load_clip_from_24_bit_depth_wav",
                    "test_audio_to_bytes", "test_can_read_media_info",
                    "test_read_clip",
                }
                failed = [
                    ln.split()[1] for ln in proc.stdout.splitlines()
                    if ln.startswith("FAILED ")
                ]
                extra = [f for f in failed if f.split("::")[-1].split("[")[0] not in known]
                summary = proc.stdout.strip().splitlines()[-1].strip("= ") if proc.stdout.strip() else "?"
                baseline = (
                    f"suite-as-baseline ({summary})" if not extra
                    else f"suite-FAILS {len(extra)} test(s) e.g. {extra[0]} ({summary})"
                )
            started = time.time()
            proc = subprocess.run(
                [sys.executable, os.path.join(HERE, "check.py"), "run", prop,
                 "--tier", "quick", "--budget", str(ns.budget), "--no-evidence"],
                capture_output=True, text=True,
                env=dict(os.environ, VERIF_REPO=scratch,
                         VERIF_SEED=os.environ.get("VERIF_SEED", "0")),
            )
            took = time.time() - started
            lines = [ln for ln in proc.stdout.splitlines() if ln.startswith("[simlab] C") or ln.startswith("VIOLATION")]
            results.append((gid, prop, proc.returncode, took, baseline, lines[:2]))
            status = "DETECTED" if proc.returncode == EXIT_VIOLATION else f"MISSED(exit {proc.returncode})"
            print(f"[sensitivity] {gid:45s} {prop} {status} {took:5.1f}s "
                  f"baseline={baseline} {lines[0][:150] if lines else ''}", flush=True)
            if proc.returncode == EXIT_HARNESS:
                print(proc.stdout[-1500:])
        finally:
            subprocess.run(["git", "-C", "/repo", "worktree", "remove", "--force", scratch])
            shutil.rmtree(scratch, ignore_errors=True)
    missed = [r for r in results if r[2] != EXIT_VIOLATION]
    print(f"[sensitivity] {len(results) - len(missed)}/{len(results)} detected")
    return EXIT_OK if not missed else EXIT_VIOLATION


def main(argv=None):
    argv = sys.argv[1:] if argv is None else argv
    if argv and argv[0] == "_worker":
        return cmd_worker(argv[1:])
    parser = argparse.ArgumentParser(prog="check.py")
    sub = parser.add_subparsers(dest="cmd", required=True)
    run = sub.add_parser("run")
    run.add_argument("prop")
    run.add_argument("--tier", choices=["quick", "thorough"])
    run.add_argument("--budget", type=float)
    run.add_argument("--workers", type=int)
    run.add_argument("--max-runs", type=int, dest="max_runs")
    run.add_argument("--no-audit", action="store_true")
    run.add_argument("--no-evidence", action="store_true",
                     help="do not rewrite evidence/<id>.json (sensitivity runs)")
    rep = sub.add_parser("replay")
    rep.add_argument("file")
    st = sub.add_parser("selftest")
    st.add_argument("what", choices=["determinism"])
    st.add_argument("--prop")
    st.add_argument("--runs", type=int, default=64)
    sens = sub.add_parser("sensitivity")
    sens.add_argument("--budget", type=float, default=20)
    sens.add_argument("--baseline", action="store_true")
    sens.add_argument("--only", nargs="*")
    sens.add_argument("--benign", action="store_true",
                      help="run the property-preserving refactors instead")
    ns = parser.parse_args(argv)
    if ns.cmd == "sensitivity":
        return cmd_sensitivity(ns)
    if ns.cmd == "run":
        return cmd_run(ns)
    if ns.cmd == "replay":
        from simlab.runner import replay_file

        return replay_file(ns.file)
    if ns.cmd == "selftest":
        return cmd_selftest(ns)
    return EXIT_HARNESS


if __name__ == "__main__":
    os.environ.setdefault("VERIF_CHECK_ID", str(os.getpid()))
    try:
        code = main()
    except SystemExit:
        raise
    except BaseException as exc:  # noqa: BLE001
        # never exit 1 (the code of a violation) for a failure of the harness
        import traceback

        traceback.print_exc()
        print(f"HARNESS-ERROR {type(exc).__name__}: {exc}")
        code = 2
    sys.exit(code)
